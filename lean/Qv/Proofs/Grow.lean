import Qv.Model.Dev
import Qv.Props.C15
/-
Helper lemmas for C12 (refcount-table growth): the case analysis of
`growReftable` (in place / relocate / unsupported), the arithmetic of the new
table size, the refcounts written by the relocation, and the way
`ensureRefblock` is composed of `growReftable`, `ensureRefblockIn` and
`freeClusters`.  Nothing here depends on the allocator lemmas
(`Qv/Proofs/Alloc.lean` imports this file).
-/
namespace Qv.Model
open Qv Qv.Codec
open Qv.Props.C15 (Geom)

/-! ## 1. the pieces of `growReftable` -/

/-- size in bytes of the relocated table: enough for entry `rtIdx`, rounded up to
    clusters, and at least one cluster more than the table on disk -/
def growNewSize (d : Dev) (rtIdx : Nat) : Nat :=
  max (((rtIdx + 1) * 8 + d.info.clusterSize - 1) / d.info.clusterSize * d.info.clusterSize)
    (d.hdrRtClusters * d.info.clusterSize + d.info.clusterSize)

/-- clusters of the relocated table -/
def growNewCl (d : Dev) (rtIdx : Nat) : Nat := growNewSize d rtIdx / d.info.clusterSize

/-- the RAM table is shorter than the table on disk and the disk table reaches `rtIdx` -/
def GrowInPlace (d : Dev) (rtIdx : Nat) : Prop :=
  d.rtLen * 8 < d.hdrRtClusters * d.info.clusterSize ∧
    (rtIdx + 1) * 8 ≤ d.hdrRtClusters * d.info.clusterSize

/-- the new table and its refblock fit into the first slice of one refblock -/
def GrowFits (d : Dev) (rtIdx : Nat) : Prop :=
  growNewCl d rtIdx < d.info.rbEntries - 1 ∧ growNewCl d rtIdx + 1 ≤ d.info.rbSliceEntries

instance (d : Dev) (rtIdx : Nat) : Decidable (GrowInPlace d rtIdx) := by
  unfold GrowInPlace; infer_instance
instance (d : Dev) (rtIdx : Nat) : Decidable (GrowFits d rtIdx) := by
  unfold GrowFits; infer_instance

/-- refcounts after the relocation: `n` clusters from `c0` on are set to 1 -/
def growRc (rc : FMap Nat) (c0 n : Nat) : FMap Nat :=
  (List.range n).foldl (fun rc k => rc.set (c0 + k) 1) rc

theorem growRc_get (rc : FMap Nat) (c0 n k : Nat) :
    (growRc rc c0 n).get k = if c0 ≤ k ∧ k < c0 + n then 1 else rc.get k := by
  unfold growRc
  induction n with
  | zero => rw [if_neg (by omega)]; rfl
  | succ n ih =>
    rw [List.range_succ, List.foldl_append]
    simp only [List.foldl_cons, List.foldl_nil]
    rw [FMap.get_set, ih]
    by_cases h : c0 + n = k
    · subst h; simp
    · rw [if_neg h]
      by_cases h2 : c0 ≤ k ∧ k < c0 + n
      · rw [if_pos h2, if_pos (by omega)]
      · rw [if_neg h2, if_neg (by omega)]

/-- clusters of the old RAM table (what the caller releases) -/
def growOldCl (d : Dev) : Nat := (d.rtLen * 8 + d.info.clusterSize - 1) / d.info.clusterSize

/-- the state after a relocation for index `rtIdx` -/
def growRelocated (d : Dev) (rtIdx : Nat) : Dev :=
  { d with
    rc := growRc d.rc (d.rtLen * d.info.rbEntries) (growNewCl d rtIdx + 1),
    rt := d.rt.set d.rtLen (BitVec.ofNat 64 (d.rtLen * d.info.rbEntries * d.info.clusterSize)),
    rtLen := growNewSize d rtIdx / 8,
    hdrRtOff := d.rtLen * d.info.rbEntries * d.info.clusterSize + d.info.clusterSize,
    hdrRtClusters := growNewCl d rtIdx,
    needFlush := true }

theorem cs_pos (i : Info) : 0 < i.clusterSize := Nat.two_pow_pos _

/-- one equation for `growReftable`, in terms of the pieces above -/
theorem growReftable_eq (rtIdx : Nat) (d : Dev) :
    growReftable rtIdx d =
      if GrowInPlace d rtIdx then
        ({ d with rtLen := d.hdrRtClusters * d.info.clusterSize / 8 }, .ok none)
      else if GrowFits d rtIdx then
        (growRelocated d rtIdx, .ok (some (d.hdrRtOff, growOldCl d)))
      else (d, .err .unsupported) := by
  unfold growReftable
  dsimp only
  by_cases hip : GrowInPlace d rtIdx
  · have hip' := hip
    unfold GrowInPlace at hip'
    rw [if_pos hip, if_pos hip']
  · have hip' := hip
    unfold GrowInPlace at hip'
    rw [if_neg hip, if_neg hip']
    by_cases hf : GrowFits d rtIdx
    · rw [if_pos hf]
      have h1 : ¬ (growNewSize d rtIdx / d.info.clusterSize ≥ d.info.rbEntries - 1) := by
        have := hf.1; unfold growNewCl at this; omega
      have h2 : ¬ (growNewSize d rtIdx / d.info.clusterSize + 1 > d.info.rbSliceEntries) := by
        have := hf.2; unfold growNewCl at this; omega
      unfold growNewSize at h1 h2
      rw [if_neg h1, if_neg h2]
      have hc0 : d.rtLen * d.info.rbEntries * d.info.clusterSize / d.info.clusterSize
          = d.rtLen * d.info.rbEntries := Nat.mul_div_cancel _ (cs_pos _)
      rw [hc0]
      rfl
    · rw [if_neg hf]
      unfold GrowFits growNewCl growNewSize at hf
      by_cases h1 : max (((rtIdx + 1) * 8 + d.info.clusterSize - 1) / d.info.clusterSize * d.info.clusterSize)
          (d.hdrRtClusters * d.info.clusterSize + d.info.clusterSize) / d.info.clusterSize
            ≥ d.info.rbEntries - 1
      · rw [if_pos h1]
      · rw [if_neg h1, if_pos (by omega)]

/-! ## 2. arithmetic of the new size -/

theorem growNewSize_mod (d : Dev) (rtIdx : Nat) : growNewSize d rtIdx % d.info.clusterSize = 0 := by
  unfold growNewSize
  rcases Nat.le_total
    (((rtIdx + 1) * 8 + d.info.clusterSize - 1) / d.info.clusterSize * d.info.clusterSize)
    (d.hdrRtClusters * d.info.clusterSize + d.info.clusterSize) with h | h
  · rw [Nat.max_eq_right h, Nat.add_mod_right]; exact Nat.mul_mod_left _ _
  · rw [Nat.max_eq_left h]; exact Nat.mul_mod_left _ _

theorem growNewCl_mul (d : Dev) (rtIdx : Nat) :
    growNewCl d rtIdx * d.info.clusterSize = growNewSize d rtIdx := by
  unfold growNewCl
  exact Nat.div_mul_cancel (Nat.dvd_of_mod_eq_zero (growNewSize_mod d rtIdx))

/-- the new table has room for entry `rtIdx` -/
theorem growNewSize_covers (d : Dev) (rtIdx : Nat) : (rtIdx + 1) * 8 ≤ growNewSize d rtIdx := by
  unfold growNewSize
  have hpos := cs_pos d.info
  have h := Nat.div_add_mod ((rtIdx + 1) * 8 + d.info.clusterSize - 1) d.info.clusterSize
  have hm := Nat.mod_lt ((rtIdx + 1) * 8 + d.info.clusterSize - 1) hpos
  rw [Nat.mul_comm] at h
  have : (rtIdx + 1) * 8 ≤
      ((rtIdx + 1) * 8 + d.info.clusterSize - 1) / d.info.clusterSize * d.info.clusterSize := by omega
  exact Nat.le_trans this (Nat.le_max_left _ _)

/-- … and is at least one cluster bigger than the table on disk -/
theorem growNewCl_gt (d : Dev) (rtIdx : Nat) : d.hdrRtClusters + 1 ≤ growNewCl d rtIdx := by
  unfold growNewCl growNewSize
  rw [Nat.le_div_iff_mul_le (cs_pos _), Nat.add_mul, Nat.one_mul]
  exact Nat.le_max_right _ _

/-- the size (hence `GrowFits`) is monotone in the index -/
theorem growNewSize_mono (d : Dev) {a b : Nat} (h : a ≤ b) : growNewSize d a ≤ growNewSize d b := by
  unfold growNewSize
  have : ((a + 1) * 8 + d.info.clusterSize - 1) / d.info.clusterSize * d.info.clusterSize
      ≤ ((b + 1) * 8 + d.info.clusterSize - 1) / d.info.clusterSize * d.info.clusterSize := by
    apply Nat.mul_le_mul_right
    apply Nat.div_le_div_right
    omega
  omega

/-! ## 3. the three outcomes -/

theorem growReftable_inplace' {rtIdx : Nat} {d : Dev} (h : GrowInPlace d rtIdx) :
    growReftable rtIdx d =
      ({ d with rtLen := d.hdrRtClusters * d.info.clusterSize / 8 }, .ok none) := by
  rw [growReftable_eq, if_pos h]

theorem growReftable_relocate' {rtIdx : Nat} {d : Dev} (h1 : ¬ GrowInPlace d rtIdx)
    (h2 : GrowFits d rtIdx) :
    growReftable rtIdx d = (growRelocated d rtIdx, .ok (some (d.hdrRtOff, growOldCl d))) := by
  rw [growReftable_eq, if_neg h1, if_pos h2]

theorem growReftable_unsupported' {rtIdx : Nat} {d : Dev} (h1 : ¬ GrowInPlace d rtIdx)
    (h2 : ¬ GrowFits d rtIdx) :
    growReftable rtIdx d = (d, .err .unsupported) := by
  rw [growReftable_eq, if_neg h1, if_neg h2]

/-- inversion: which branch produced a given result -/
theorem growReftable_cases {rtIdx : Nat} {d d' : Dev} {r : Outcome (Option (Nat × Nat))}
    (h : growReftable rtIdx d = (d', r)) :
    (GrowInPlace d rtIdx ∧ d' = { d with rtLen := d.hdrRtClusters * d.info.clusterSize / 8 } ∧
        r = .ok none) ∨
    (¬ GrowInPlace d rtIdx ∧ GrowFits d rtIdx ∧ d' = growRelocated d rtIdx ∧
        r = .ok (some (d.hdrRtOff, growOldCl d))) ∨
    (¬ GrowInPlace d rtIdx ∧ ¬ GrowFits d rtIdx ∧ d' = d ∧ r = .err .unsupported) := by
  rw [growReftable_eq] at h
  by_cases hip : GrowInPlace d rtIdx
  · rw [if_pos hip] at h
    simp only [Prod.mk.injEq] at h
    exact Or.inl ⟨hip, h.1.symm, h.2.symm⟩
  · rw [if_neg hip] at h
    by_cases hf : GrowFits d rtIdx
    · rw [if_pos hf] at h
      simp only [Prod.mk.injEq] at h
      exact Or.inr (Or.inl ⟨hip, hf, h.1.symm, h.2.symm⟩)
    · rw [if_neg hf] at h
      simp only [Prod.mk.injEq] at h
      exact Or.inr (Or.inr ⟨hip, hf, h.1.symm, h.2.symm⟩)

/-- what every outcome of `growReftable` leaves alone -/
theorem growReftable_frame (rtIdx : Nat) (d : Dev) :
    (growReftable rtIdx d).1 =
      { d with rc := (growReftable rtIdx d).1.rc, rt := (growReftable rtIdx d).1.rt,
               rtLen := (growReftable rtIdx d).1.rtLen,
               hdrRtOff := (growReftable rtIdx d).1.hdrRtOff,
               hdrRtClusters := (growReftable rtIdx d).1.hdrRtClusters,
               needFlush := (growReftable rtIdx d).1.needFlush } := by
  rw [growReftable_eq]
  split
  · rfl
  · split <;> rfl

/-- success makes the table reach `rtIdx`; a call for an index beyond the table
    never shrinks it; entries below the old length are kept -/
theorem growReftable_ok_len {rtIdx : Nat} {d d' : Dev} {old : Option (Nat × Nat)}
    (h : growReftable rtIdx d = (d', .ok old)) :
    rtIdx < d'.rtLen ∧ (d.rtLen ≤ rtIdx → d.rtLen ≤ d'.rtLen) ∧
    (∀ j, j < d.rtLen → d'.rt.get j = d.rt.get j) ∧ d'.info = d.info := by
  rcases growReftable_cases h with ⟨hip, rfl, _⟩ | ⟨_, _, rfl, _⟩ | ⟨_, _, _, hr⟩
  · obtain ⟨a, b⟩ := hip
    refine ⟨?_, fun _ => ?_, fun _ _ => rfl, rfl⟩
    · show rtIdx < d.hdrRtClusters * d.info.clusterSize / 8
      omega
    · show d.rtLen ≤ d.hdrRtClusters * d.info.clusterSize / 8
      omega
  · have hc := growNewSize_covers d rtIdx
    refine ⟨?_, fun hle => ?_, fun j hj => ?_, rfl⟩
    · show rtIdx < growNewSize d rtIdx / 8
      omega
    · show d.rtLen ≤ growNewSize d rtIdx / 8
      omega
    · show (d.rt.set d.rtLen _).get j = d.rt.get j
      exact FMap.get_set_other _ _ _ _ (by omega)
  · cases hr

/-! ## 4. `ensureRefblockIn` and the composition `ensureRefblock` -/

/-- the state after `ensureRefblockIn` created the refblock of `rtIdx` -/
def withRefblockAt (d : Dev) (rtIdx : Nat) : Dev :=
  { d with rt := d.rt.set rtIdx (BitVec.ofNat 64 (rtIdx * d.info.rbEntries * d.info.clusterSize)),
           rc := d.rc.set (rtIdx * d.info.rbEntries * d.info.clusterSize / d.info.clusterSize) 1,
           needFlush := true }

theorem ensureRefblockIn_eq (rtIdx : Nat) (d : Dev) :
    ensureRefblockIn rtIdx d =
      if ¬ (rtIdx < d.rtLen) then (d, .err .unsupported)
      else if RT.isZero (d.rt.get rtIdx) then (withRefblockAt d rtIdx, .ok ())
      else (d, .ok ()) := by
  unfold ensureRefblockIn
  dsimp only
  by_cases hlt : rtIdx < d.rtLen
  · rw [if_pos hlt, if_neg (not_not_intro hlt)]
    by_cases hz : RT.isZero (d.rt.get rtIdx) = true
    · rw [if_neg (not_not_intro hz), if_neg (not_not_intro hlt), if_pos hz]; rfl
    · rw [if_pos hz, if_neg (not_not_intro hlt), if_neg hz]
  · rw [if_neg hlt, if_pos hlt]
    have : RT.isZero 0#64 = true := by decide
    rw [if_neg (not_not_intro this), if_pos hlt]

/-- inside the table `ensureRefblockIn` succeeds, keeps `info`, `rtLen`, the header
    fields, and touches `rt` only at `rtIdx` -/
theorem ensureRefblockIn_inb {rtIdx : Nat} {d : Dev} (hlt : rtIdx < d.rtLen) :
    ∃ d', ensureRefblockIn rtIdx d = (d', .ok ()) ∧ d'.info = d.info ∧ d'.rtLen = d.rtLen ∧
      d'.hdrRtClusters = d.hdrRtClusters ∧ d'.hdrRtOff = d.hdrRtOff ∧
      (d' = d ∨ d' = withRefblockAt d rtIdx) := by
  rw [ensureRefblockIn_eq, if_neg (not_not_intro hlt)]
  split
  · exact ⟨_, rfl, rfl, rfl, rfl, rfl, Or.inr rfl⟩
  · exact ⟨_, rfl, rfl, rfl, rfl, rfl, Or.inl rfl⟩

/-- in bounds, `ensureRefblock` is `ensureRefblockIn` -/
theorem ensureRefblock_inb {off : Nat} {d : Dev} (hlt : Host.rtIndex d.info off < d.rtLen) :
    ensureRefblock off d = ensureRefblockIn (Host.rtIndex d.info off) d := by
  unfold ensureRefblock
  dsimp only
  rw [if_pos hlt]

/-- the three ways `ensureRefblock` ends for an index beyond the table: growth is
    refused; the table on disk was longer than the one in RAM (then only the refblock of
    the index is created, if missing); or the table is relocated, the refblock of the
    index is created (always possible after a successful growth) and the old table is
    released -/
theorem ensureRefblock_oob_cases {off : Nat} {d : Dev} (hge : ¬ Host.rtIndex d.info off < d.rtLen) :
    (¬ GrowInPlace d (Host.rtIndex d.info off) ∧ ¬ GrowFits d (Host.rtIndex d.info off) ∧
      ensureRefblock off d = (d, .err .unsupported)) ∨
    (GrowInPlace d (Host.rtIndex d.info off) ∧
      ∃ d2, ensureRefblockIn (Host.rtIndex d.info off)
          { d with rtLen := d.hdrRtClusters * d.info.clusterSize / 8 } = (d2, .ok ()) ∧
        ensureRefblock off d = (d2, .ok ())) ∨
    (¬ GrowInPlace d (Host.rtIndex d.info off) ∧ GrowFits d (Host.rtIndex d.info off) ∧
      ∃ d2, ensureRefblockIn (Host.rtIndex d.info off)
          (growRelocated d (Host.rtIndex d.info off)) = (d2, .ok ()) ∧
        ensureRefblock off d = freeClusters d.hdrRtOff (growOldCl d) true d2) := by
  unfold ensureRefblock
  dsimp only
  rw [if_neg hge]
  generalize hg : growReftable (Host.rtIndex d.info off) d = rg
  obtain ⟨d1, r⟩ := rg
  rcases growReftable_cases hg with ⟨hip, hd1, rfl⟩ | ⟨hip, hf, hd1, rfl⟩ | ⟨hip, hf, rfl, rfl⟩
  · right; left
    have hl := (growReftable_ok_len hg).1
    obtain ⟨d2, h2, _⟩ := ensureRefblockIn_inb hl
    refine ⟨hip, d2, hd1 ▸ h2, ?_⟩
    dsimp only
    rw [h2]
  · right; right
    have hl := (growReftable_ok_len hg).1
    obtain ⟨d2, h2, _⟩ := ensureRefblockIn_inb hl
    refine ⟨hip, hf, d2, hd1 ▸ h2, ?_⟩
    dsimp only
    rw [h2]
  · left; exact ⟨hip, hf, rfl⟩

/-- frame principle: a reflexive, transitive relation between states that every step
    of `ensureRefblock` respects (`growReftable` only for indices beyond the table, as it
    is called) is respected by `ensureRefblock`, whatever the outcome -/
theorem ensureRefblock_rel (R : Dev → Dev → Prop) (_hrefl : ∀ d, R d d)
    (htrans : ∀ a b c, R a b → R b c → R a c)
    (hg : ∀ i d, d.rtLen ≤ i → R d (growReftable i d).1) (he : ∀ i d, R d (ensureRefblockIn i d).1)
    (hf : ∀ o n fz d, R d (freeClusters o n fz d).1) (off : Nat) (d : Dev) :
    R d (ensureRefblock off d).1 := by
  unfold ensureRefblock
  dsimp only
  by_cases hlt : Host.rtIndex d.info off < d.rtLen
  · rw [if_pos hlt]; exact he _ d
  · rw [if_neg hlt]
    have h1 := hg (Host.rtIndex d.info off) d (by omega)
    generalize growReftable (Host.rtIndex d.info off) d = rg at h1
    rcases rg with ⟨d1, old | e | p⟩
    · dsimp only at h1 ⊢
      have h2 := he (Host.rtIndex d.info off) d1
      generalize ensureRefblockIn (Host.rtIndex d.info off) d1 = re at h2
      rcases re with ⟨d2, _ | e | p⟩
      · dsimp only at h2 ⊢
        rcases old with _ | ⟨o, n⟩
        · exact htrans _ _ _ h1 h2
        · exact htrans _ _ _ h1 (htrans _ _ _ h2 (hf o n true d2))
      · exact htrans _ _ _ h1 h2
      · exact htrans _ _ _ h1 h2
    · exact h1
    · exact h1

/-- the same for a predicate on (state, outcome) pairs is not needed: the outcome-
    sensitive facts are in `ensureRefblock_oob_cases`. -/
theorem ensureRefblockIn_frame (rtIdx : Nat) (d : Dev) :
    (ensureRefblockIn rtIdx d).1 =
      { d with rc := (ensureRefblockIn rtIdx d).1.rc, rt := (ensureRefblockIn rtIdx d).1.rt,
               needFlush := (ensureRefblockIn rtIdx d).1.needFlush } := by
  rw [ensureRefblockIn_eq]
  split
  · rfl
  · split <;> rfl

/-! ## 5. how far the table can grow

`NoGrow d`: neither branch of `growReftable` can succeed, whatever the index.
`rtCap d` bounds the length the RAM table can ever reach from `d`; it is the
termination measure of the outer allocator loop now that `ensure_refblock_offset`
grows the table instead of failing. -/

/-- the RAM table is as long as the one on disk, and a table one cluster bigger does
    not fit any more -/
def NoGrow (d : Dev) : Prop :=
  d.hdrRtClusters * d.info.clusterSize ≤ d.rtLen * 8 ∧
    ¬ (d.hdrRtClusters + 1 < d.info.rbEntries - 1 ∧ d.hdrRtClusters + 2 ≤ d.info.rbSliceEntries)

instance (d : Dev) : Decidable (NoGrow d) := by unfold NoGrow; infer_instance

theorem NoGrow.no_branch {d : Dev} (h : NoGrow d) (rtIdx : Nat) :
    ¬ GrowInPlace d rtIdx ∧ ¬ GrowFits d rtIdx := by
  obtain ⟨h1, h2⟩ := h
  have := growNewCl_gt d rtIdx
  constructor
  · intro hip; have := hip.1; omega
  · intro hf; apply h2; have := hf.1; have := hf.2; constructor <;> omega

theorem NoGrow.unsupported {d : Dev} (h : NoGrow d) (rtIdx : Nat) :
    growReftable rtIdx d = (d, .err .unsupported) :=
  growReftable_unsupported' (h.no_branch rtIdx).1 (h.no_branch rtIdx).2

/-- bound on the length of the RAM table reachable from `d` -/
def rtCap (d : Dev) : Nat :=
  if NoGrow d then d.rtLen
  else max d.rtLen (max (d.hdrRtClusters * d.info.clusterSize / 8)
    ((d.info.rbEntries - 2) * d.info.clusterSize / 8))

theorem rtLen_le_rtCap (d : Dev) : d.rtLen ≤ rtCap d := by
  unfold rtCap; split <;> omega

theorem rtCap_le_max (d : Dev) :
    rtCap d ≤ max d.rtLen (max (d.hdrRtClusters * d.info.clusterSize / 8)
      ((d.info.rbEntries - 2) * d.info.clusterSize / 8)) := by
  unfold rtCap; split <;> omega

theorem rtCap_congr {d d' : Dev} (h1 : d'.info = d.info) (h2 : d'.rtLen = d.rtLen)
    (h3 : d'.hdrRtClusters = d.hdrRtClusters) : rtCap d' = rtCap d := by
  have hiff : NoGrow d' ↔ NoGrow d := by unfold NoGrow; rw [h1, h2, h3]
  unfold rtCap
  by_cases hn : NoGrow d
  · rw [if_pos hn, if_pos (hiff.2 hn), h2]
  · rw [if_neg hn, if_neg (fun x => hn (hiff.1 x)), h1, h2, h3]

theorem rtCap_of_noGrow {d : Dev} (h : NoGrow d) : rtCap d = d.rtLen := by
  unfold rtCap; rw [if_pos h]

theorem rtCap_of_grow {d : Dev} (h : ¬ NoGrow d) :
    rtCap d = max d.rtLen (max (d.hdrRtClusters * d.info.clusterSize / 8)
      ((d.info.rbEntries - 2) * d.info.clusterSize / 8)) := by
  unfold rtCap; rw [if_neg h]

/-- a successful `growReftable` does not raise the bound -/
theorem growReftable_cap {rtIdx : Nat} {d d' : Dev} {old : Option (Nat × Nat)}
    (h : growReftable rtIdx d = (d', .ok old)) : rtCap d' ≤ rtCap d := by
  have hng : ¬ NoGrow d := by
    intro hn; rw [hn.unsupported] at h; cases h
  rw [rtCap_of_grow hng]
  refine Nat.le_trans (rtCap_le_max d') ?_
  rcases growReftable_cases h with ⟨hip, rfl, _⟩ | ⟨_, hf, rfl, _⟩ | ⟨_, _, _, hr⟩
  · dsimp only; omega
  · show max (growNewSize d rtIdx / 8) (max (growNewCl d rtIdx * d.info.clusterSize / 8)
      ((d.info.rbEntries - 2) * d.info.clusterSize / 8)) ≤ _
    rw [growNewCl_mul]
    have : growNewSize d rtIdx ≤ (d.info.rbEntries - 2) * d.info.clusterSize := by
      rw [← growNewCl_mul]
      apply Nat.mul_le_mul_right
      have := hf.1; omega
    have := Nat.div_le_div_right (c := 8) this
    omega
  · cases hr

/-! ## 6. where the new table lies -/

/-- every byte of cluster `L * rbEntries + k` (`k < rbEntries`) is described by
    refcount-table entry `L` -/
theorem rtIndex_of_region {i : Info} (g : Geom i) (L k x : Nat) (hk : k < i.rbEntries)
    (h1 : (L * i.rbEntries + k) * i.clusterSize ≤ x)
    (h2 : x < (L * i.rbEntries + k + 1) * i.clusterSize) : Host.rtIndex i x = L := by
  unfold Host.rtIndex
  rw [Nat.pow_add, g.rbIndexShift_eq]
  show x / (i.rbEntries * i.clusterSize) = L
  have e1 : (L * i.rbEntries + k) * i.clusterSize
      = L * (i.rbEntries * i.clusterSize) + k * i.clusterSize := by
    rw [Nat.add_mul, Nat.mul_assoc]
  have e2 : (L * i.rbEntries + k + 1) * i.clusterSize
      = L * (i.rbEntries * i.clusterSize) + (k + 1) * i.clusterSize := by
    rw [Nat.add_assoc, Nat.add_mul, Nat.mul_assoc]
  have e3 : (k + 1) * i.clusterSize ≤ i.rbEntries * i.clusterSize := Nat.mul_le_mul_right _ hk
  apply Nat.div_eq_of_lt_le
  · omega
  · rw [Nat.add_mul, Nat.one_mul]; omega

end Qv.Model
