import Qv.Proofs.RefineGrow
/-
Helper lemmas for `Qv/Props/C01History.lean`, part 2: the multi-cluster write path
(`make_multiple_write_mappings` → `do_writes`) for EVERY outcome, refcount-table growth
included, and the whole `__write_at` (`write_g`).  See `RefineGrow.lean` for the invariants.
-/
namespace Qv.Model.RG
open Qv Qv.Codec Qv.Model Qv.Model.RW
open Qv.Props.C15 (Geom)
open Qv.Props.C11 (L1Distinct)
open Qv.Spec (Flat)
open Qv.Proofs.RefineDiscard

/-! ## 1. the mapping loop -/

/-- the data plane is untouched by the mapping loop, and every new-cluster mark it adds is a
    cluster of the run -/
theorem mapRun_new (cstart ccnt stop : Nat) (fuel : Nat) :
    ∀ this idx acc (D D' : Dev) r, idx < ccnt → mapRun cstart ccnt stop fuel this idx acc D = (D', r) →
      D'.data = D.data ∧ D'.info = D.info ∧ (L1Q D → L1Q D') ∧
      ∀ c, c ∈ D'.newData → c ∈ D.newData ∨
        ∃ j, idx ≤ j ∧ j < ccnt ∧ c = (cstart + j * D.info.clusterSize) / D.info.clusterSize := by
  induction fuel with
  | zero =>
    intro this idx acc D D' r _ h
    simp only [mapRun, M.pure, Prod.mk.injEq] at h
    obtain ⟨rfl, _⟩ := h
    exact ⟨rfl, rfl, id, fun c hc => Or.inl hc⟩
  | succ fuel ih =>
    intro this idx acc D D' r hidx h
    rw [RW.mapRun_succ] at h
    by_cases hlt : this < stop
    · rw [if_neg (not_not_intro hlt)] at h
      by_cases hneed : needMakeMapping D.info (D.mapping this) = true
      · rw [if_pos hneed] at h
        dsimp only at h
        by_cases hlast : idx + 1 ≥ ccnt
        · rw [if_pos hlast] at h
          simp only [Prod.mk.injEq] at h
          obtain ⟨rfl, _⟩ := h
          refine ⟨rfl, rfl, id, fun c hc => ?_⟩
          rcases List.mem_cons.1 hc with e | e
          · exact Or.inr ⟨idx, Nat.le_refl _, hidx, e⟩
          · exact Or.inl e
        · rw [if_neg hlast] at h
          obtain ⟨a1, a2, aq, a3⟩ := ih _ _ _ _ _ _ (by omega) h
          refine ⟨a1, a2, fun q => aq q, fun c hc => ?_⟩
          rcases a3 c hc with e | ⟨j, j1, j2, e⟩
          · rcases List.mem_cons.1 e with e | e
            · exact Or.inr ⟨idx, Nat.le_refl _, hidx, e⟩
            · exact Or.inl e
          · exact Or.inr ⟨j, by omega, j2, e⟩
      · rw [if_neg hneed, if_neg (by omega)] at h
        exact ih _ _ _ _ _ _ hidx h
    · rw [if_pos hlt] at h
      simp only [Prod.mk.injEq] at h
      obtain ⟨rfl, _⟩ := h
      exact ⟨rfl, rfl, id, fun c hc => Or.inl hc⟩

/-- the mapping loop keeps `ZInv` -/
theorem mapRun_zinv {cstart ccnt stop fuel this idx : Nat} {acc : List E64} {D D' : Dev}
    {r : Outcome (List E64 × Nat × Nat)} (mo : MapOK D) (z : ZInv D)
    (hidx : idx < ccnt) (hrun : RunOK D cstart ccnt idx) (hk : Keeps D D')
    (h : mapRun cstart ccnt stop fuel this idx acc D = (D', r)) : ZInv D' := by
  obtain ⟨hd, hi, _, hnew⟩ := mapRun_new cstart ccnt stop fuel this idx acc D D' r hidx h
  intro σ hσ
  rw [hd] at hσ
  obtain ⟨o, h', a1, a2, a3, a4, a5, a6⟩ := z σ hσ
  have hnm : needMakeMapping D.info (D.mapping o) = false := by
    cases hx : needMakeMapping D.info (D.mapping o) with
    | false => rfl
    | true => exact absurd a2 (needMake_true_nondata (mo.ent o a1) hx)
  have hm : D'.mapping o = D.mapping o := mapping_of_l2Entry hi (hk.2 o hnm)
  refine ⟨o, h', by rw [hi]; exact a1, by rw [hm]; exact a2, by rw [hm]; exact a3, a4, ?_, ?_⟩
  · unfold Dev.spc at a5 ⊢; rw [hi]; exact a5
  · rw [hi]
    intro hmem
    rcases hnew _ hmem with e | ⟨j, j1, j2, e⟩
    · exact a6 e
    · obtain ⟨fj, _⟩ := hrun.2.2.2 j j1 j2
      exact div_ne_of_disjoint (cs_pos D.info) (fj o h' a1 a2 a3) e

/-! ## 2. `__make_multiple_write_mapping` -/

theorem stop_cluster_lt {cs stop vsize o : Nat} (hcs : 0 < cs) (hstop : stop % cs = 0)
    (hsv : stop < vsize + cs) (ho : o < stop) : o / cs * cs < vsize := by
  obtain ⟨q, rfl⟩ := Nat.dvd_of_mod_eq_zero hstop
  have h1 : o / cs < q := by
    rw [Nat.div_lt_iff_lt_mul hcs, Nat.mul_comm]; exact ho
  have h2 : (o / cs + 1) * cs ≤ q * cs := Nat.mul_le_mul_right _ h1
  rw [Nat.add_mul, Nat.one_mul, Nat.mul_comm q cs] at h2
  omega

theorem mInv_of_gInv {f : Flat} {D : Dev} (i : GInv f D) (b : Nat) (hb : D.info.vsize ≤ b) :
    MInv f 0 b D :=
  ⟨i.st, i.tab, i.map, i.ref, fun o ho _ => ⟨Nat.zero_le _, by omega⟩⟩

/-- **one call of `__make_multiple_write_mapping`, any outcome, the refcount table may grow** -/
theorem makeMultiple_g {f : Flat} {start stop : Nat} {d d' : Dev} {r : Outcome (List E64 × Nat)}
    (w : WInv d) (inv : GInv f d) (pv : PlainView d)
    (hstart : start % d.info.clusterSize = 0) (hstop : stop % d.info.clusterSize = 0)
    (hlt : start < stop) (hsv : stop < d.info.vsize + d.info.clusterSize)
    (h : makeMultiple start stop d = (d', r)) (hc : Cap d') :
    WInv d' ∧ GInv f d' ∧ PlainView d' ∧ d'.info = d.info ∧ (∀ p, r ≠ .panic p) ∧
    (∀ es cnt, r = .ok (es, cnt) →
      Entries d' start cnt es ∧ Keeps d d' ∧ start + cnt * d.info.clusterSize ≤ stop) := by
  have hcs := cs_pos d.info
  have hov : start < d.info.vsize := aligned_lt_vsize hstart hstop hlt hsv
  obtain ⟨w', hi', _, vs', np, _⟩ := makeMultiple_winv w hstart hlt
    (fun o _ h2 => l1Index_lt_of_cluster w.shape (stop_cluster_lt hcs hstop hsv h2))
    (fun o _ _ => (pv o).1) (fun o _ _ => (pv o).2) h hc
  have pv' : PlainView d' := pv.of_viewStep vs' hi'
  have key : GInv f d' ∧ (∀ es cnt, r = .ok (es, cnt) →
      Entries d' start cnt es ∧ Keeps d d' ∧ start + cnt * d.info.clusterSize ≤ stop) := by
    rw [Model.makeMultiple_eq] at h
    generalize hen : ensureL2 start d = rA at h
    obtain ⟨d1, oA⟩ := rA
    rcases oA with _ | e | p
    · dsimp only at h
      have hi1 : d1.info = d.info := by
        have := (ensureL2_dsame start d).1; rw [hen] at this; exact this
      have hs1 : start ≤ mmStop d.info start stop := by unfold mmStop; omega
      have hs2 : mmStop d.info start stop ≤ stop := Nat.min_le_left _ _
      have hstop'al : mmStop d.info start stop % d.info.clusterSize = 0 := by
        unfold mmStop
        apply Arith16.min_mod_zero hstop
        rw [Nat.add_mul_mod_self_right]; exact hstart
      have hncs : start + mmN d.info start stop * d.info.clusterSize = mmStop d.info start stop := by
        unfold mmN; exact aligned_sub_div hstart hstop'al hs1
      by_cases hz : mmNeed d1 start stop = 0
      · rw [if_pos hz] at h
        simp only [Prod.mk.injEq] at h
        obtain ⟨rfl, rfl⟩ := h
        obtain ⟨_, iA, vA, _, _, _⟩ := ensureL2_g w inv hov hen hc
        refine ⟨iA, fun es cnt he => ?_⟩
        simp only [Outcome.ok.injEq, Prod.mk.injEq] at he
        obtain ⟨rfl, rfl⟩ := he
        rw [hi1]
        refine ⟨⟨?_, ?_⟩, vA.keeps, by omega⟩
        · unfold mmOffs
          rw [List.map_map, hi1]
          rfl
        · intro j hj
          unfold mmNeed at hz
          have := filter_length_zero hz (start + j * d.info.clusterSize)
            (by unfold mmOffs; rw [hi1]; exact List.mem_map.2 ⟨j, List.mem_range.2 hj, rfl⟩)
          rw [hi1] at this ⊢; simpa using this
      · rw [if_neg hz] at h
        generalize hal : allocateClusters (mmNeed d1 start stop) d1 = r2 at h
        obtain ⟨d2, o2⟩ := r2
        rcases o2 with (_ | ⟨cstart, ccnt⟩) | e | p
        · exact absurd (by rw [hal]) (Qv.Props.C01Model.allocateClusters_never_none (mmNeed d1 start stop) d1)
        · dsimp only at h
          have hc2 : Cap d2 := (mmTail_rm _ _ _ _ _ _ h).cap hc
          have hc1 : Cap d1 := ((allocateClusters_mn _).rm_of_eq hal).cap hc2
          obtain ⟨wA, iA, vA, _, _, hl1A⟩ := ensureL2_g w inv hov hen hc1
          obtain ⟨i2, v2, post, _, hrun⟩ := alloc_g wA iA hz hal hc2
          have hfr : GrowFrame d1 d2 := (allocateClusters_acct wA hz hal hc2).2
          obtain ⟨_, _, _, n1, _⟩ := post
          have hi2 : d2.info = d.info := v2.info.trans hi1
          rw [hi1] at h
          unfold mmTail at h
          rw [if_neg (by omega)] at h
          generalize hB : mmStop d.info start stop + (d.info.vsize / d.info.clusterSize + 1) * d.info.clusterSize = B
          have hBal : B % d.info.clusterSize = 0 := by
            rw [← hB, Nat.add_mul_mod_self_right]; exact hstop'al
          have hBv : d.info.vsize ≤ B := by
            have := Arith.lt_round_down_add d.info.vsize _ hcs
            rw [Nat.add_mul, Nat.one_mul] at hB
            omega
          have hslice : ∀ o, start ≤ o → o < mmStop d.info start stop →
              Split.l1Index d.info o = Split.l1Index d.info start := by
            intro o o1 o2
            apply l1Index_in_slice inv.st.geom start o hstart o1
            have : mmStop d.info start stop ≤
                start + (d.info.l2SliceEntries - Split.l2SliceIndex d.info start) * d.info.clusterSize :=
              Nat.min_le_right _ _
            omega
          have hl1B : ∀ o, start ≤ o → o < mmStop d.info start stop → L1.isZero (d2.l1Entry o) = false := by
            intro o o1 o2
            rw [GrowFrame.l1Entry hfr]
            have : d1.l1Entry o = d1.l1Entry start := by
              unfold Dev.l1Entry; rw [hi1, hslice o o1 o2]
            rw [this]; exact hl1A rfl
          obtain ⟨D3, es'', k, done', heq, inv3, _, hent3, hk3, hle3, _⟩ :=
            mapRun_step f 0 B cstart ccnt (mmStop d.info start stop) d.info hstop'al (Nat.zero_mod _) hBal
              (by omega) (by omega) (mmN d.info start stop + 1)
              start 0 [] d2 hi2 (mInv_of_gInv i2 B (by rw [hi2]; exact hBv)) hstart (Nat.zero_le _) hs1 hl1B
              (by omega) (hrun cstart ccnt rfl)
          have hz3 : ZInv D3 := mapRun_zinv i2.map i2.z (by omega) (hrun cstart ccnt rfl) hk3 heq
          rw [heq] at h
          dsimp only at h
          simp only [List.reverse_nil, List.nil_append, Prod.mk.injEq] at h
          obtain ⟨h1, h2⟩ := h
          have hq3 : L1Q D3 := (mapRun_new _ _ _ _ _ _ _ _ _ _ (by omega) heq).2.2.1 i2.q
          have i3 : GInv f D3 := ⟨inv3.st, inv3.tab, inv3.map, inv3.ref, hz3, hq3⟩
          have v3 : VFrame D3 d' := by
            rw [← h1]; split
            · exact nf_vframe D3 true
            · exact VFrame.refl D3
          have hq' : L1Q d' := by
            rw [← h1]; split
            · exact hq3
            · exact hq3
          refine ⟨i3.of_vframe_winv v3 w' hq', fun es cnt he => ?_⟩
          rw [← h2] at he
          simp only [Outcome.ok.injEq, Prod.mk.injEq] at he
          obtain ⟨rfl, rfl⟩ := he
          have hk : (start + k * d.info.clusterSize - start) / d.info.clusterSize = k := by
            rw [Nat.add_sub_cancel_left, Nat.mul_div_cancel _ hcs]
          rw [hk]
          refine ⟨hent3.keeps v3.keeps, vA.keeps.trans (v2.keeps.trans (hk3.trans v3.keeps)), by omega⟩
        · simp only [Prod.mk.injEq] at h
          obtain ⟨rfl, rfl⟩ := h
          have hc1 : Cap d1 := ((allocateClusters_mn _).rm_of_eq hal).cap hc
          obtain ⟨wA, iA, _, _, _, _⟩ := ensureL2_g w inv hov hen hc1
          obtain ⟨i2, _, _, _, _⟩ := alloc_g wA iA hz hal hc
          exact ⟨i2, fun es cnt he => by cases he⟩
        · simp only [Prod.mk.injEq] at h
          obtain ⟨rfl, rfl⟩ := h
          exact absurd rfl (np p)
    · simp only [Prod.mk.injEq] at h
      obtain ⟨rfl, rfl⟩ := h
      obtain ⟨_, iA, _, _, _, _⟩ := ensureL2_g w inv hov hen hc
      exact ⟨iA, fun es cnt he => by cases he⟩
    · simp only [Prod.mk.injEq] at h
      obtain ⟨rfl, rfl⟩ := h
      exact absurd rfl (np p)
  exact ⟨w', key.1, pv', hi', np, key.2⟩


/-! ## 3. `make_multiple_write_mappings` -/

/-- **the mapping phase of the multi-cluster path, any outcome, the refcount table may grow**:
    the invariant is kept (with the SAME flat disk: mapping a cluster changes nothing the
    guest sees); on success the entries of the `m` clusters from `start` are returned behind
    `acc`, all plainly mapped. -/
theorem makeMultiples_g (f : Flat) (stop : Nat) (i : Info)
    (hstop : stop % i.clusterSize = 0) (hsv : stop < i.vsize + i.clusterSize) (fuel : Nat) :
    ∀ start m acc (d d' : Dev) r, d.info = i → WInv d → GInv f d → PlainView d →
      start % i.clusterSize = 0 → stop = start + m * i.clusterSize → m ≤ fuel →
      makeMultiples stop fuel start acc d = (d', r) → Cap d' →
      GInv f d' ∧ d'.info = i ∧ (∀ p, r ≠ .panic p) ∧
        (∀ es, r = .ok es → ∃ es', es = acc ++ es' ∧ Entries d' start m es' ∧ Keeps d d') := by
  have hcs := cs_pos i
  induction fuel with
  | zero =>
    intro start m acc d d' r hi _ inv _ _ _ hm h _
    have : m = 0 := by omega
    subst this
    simp only [makeMultiples, M.pure, Prod.mk.injEq] at h
    obtain ⟨rfl, rfl⟩ := h
    refine ⟨inv, hi, fun p hp => (by cases hp), fun es he => ?_⟩
    simp only [Outcome.ok.injEq] at he
    subst he
    exact ⟨[], by simp, Entries.nil _ _, Keeps.refl _⟩
  | succ fuel ih =>
    intro start m acc d d' r hi w inv pv hstart hm hmf h hc
    subst hi
    rw [RW.makeMultiples_succ] at h
    by_cases hlt : start < stop
    · rw [if_neg (not_not_intro hlt)] at h
      have hmpos : 0 < m := by
        rcases Nat.eq_zero_or_pos m with h0 | h0
        · rw [h0] at hm; omega
        · exact h0
      by_cases hneed : needMakeMapping d.info (d.mapping start) = true
      · rw [if_pos hneed] at h
        generalize hmm : makeMultiple start stop d = rr at h
        obtain ⟨d1, o1⟩ := rr
        rcases o1 with ⟨es1, done⟩ | e | p
        · dsimp only at h
          by_cases hd0 : done = 0
          · rw [if_pos hd0] at h
            simp only [Prod.mk.injEq] at h
            obtain ⟨rfl, rfl⟩ := h
            obtain ⟨_, i1, _, hi1, _, _⟩ := makeMultiple_g w inv pv hstart hstop hlt hsv hmm hc
            exact ⟨i1, hi1, fun p hp => (by cases hp), fun es he => by cases he⟩
          · rw [if_neg hd0] at h
            have hc1 : Cap d1 :=
              ((makeMultiples_mn stop fuel (start + done * d.info.clusterSize) (acc ++ es1)).rm_of_eq h).cap hc
            obtain ⟨w1, i1, pv1, hi1, _, hsucc⟩ := makeMultiple_g w inv pv hstart hstop hlt hsv hmm hc1
            obtain ⟨hent1, hk1, hle1⟩ := hsucc es1 done rfl
            have hdm : done ≤ m := by
              rw [hm] at hle1
              exact Nat.le_of_mul_le_mul_right (by omega) hcs
            have hstart' : (start + done * d.info.clusterSize) % d.info.clusterSize = 0 := by
              rw [Nat.add_mul_mod_self_right]; exact hstart
            have hm' : stop = start + done * d.info.clusterSize + (m - done) * d.info.clusterSize := by
              rw [Nat.add_assoc, ← Nat.add_mul, hm]; congr 2; omega
            obtain ⟨i', hi', np', hs'⟩ :=
              ih (start + done * d.info.clusterSize) (m - done) (acc ++ es1) d1 d' r hi1 w1 i1 pv1 hstart'
                hm' (by omega) h hc
            refine ⟨i', hi', np', fun es he => ?_⟩
            obtain ⟨es2, he2, hent2, hk2⟩ := hs' es he
            refine ⟨es1 ++ es2, by rw [he2, List.append_assoc], ?_, hk1.trans hk2⟩
            have e1 : Entries d' start done es1 := hent1.keeps hk2
            have := Entries.append e1 (by rw [hi']; exact hent2)
            rw [show done + (m - done) = m by omega] at this
            exact this
        · simp only [Prod.mk.injEq] at h
          obtain ⟨rfl, rfl⟩ := h
          obtain ⟨_, i1, _, hi1, _, _⟩ := makeMultiple_g w inv pv hstart hstop hlt hsv hmm hc
          exact ⟨i1, hi1, fun p hp => (by cases hp), fun es he => by cases he⟩
        · simp only [Prod.mk.injEq] at h
          obtain ⟨rfl, rfl⟩ := h
          obtain ⟨_, _, _, _, np1, _⟩ := makeMultiple_g w inv pv hstart hstop hlt hsv hmm hc
          exact absurd rfl (np1 p)
      · rw [if_neg hneed] at h
        have hn0 : needMakeMapping d.info (d.mapping start) = false := by simpa using hneed
        have hstart' : (start + d.info.clusterSize) % d.info.clusterSize = 0 := by
          rw [Nat.add_mod_right]; exact hstart
        have hm' : stop = start + d.info.clusterSize + (m - 1) * d.info.clusterSize := by
          rw [hm, Nat.add_assoc]; congr 1
          rw [Nat.sub_mul, Nat.one_mul]
          have : d.info.clusterSize ≤ m * d.info.clusterSize := Nat.le_mul_of_pos_left _ hmpos
          omega
        obtain ⟨i', hi', np', hs'⟩ :=
          ih (start + d.info.clusterSize) (m - 1) (acc ++ [d.l2Entry start]) d d' r rfl w inv pv hstart'
            hm' (by omega) h hc
        refine ⟨i', hi', np', fun es he => ?_⟩
        obtain ⟨es2, he2, hent2, hk2⟩ := hs' es he
        refine ⟨d.l2Entry start :: es2, by rw [he2, List.append_assoc]; rfl, ?_, hk2⟩
        have := Entries.cons (hk2.2 start hn0) (hk2.needMake hn0) (by rw [hk2.1]; exact hent2)
        rw [show m - 1 + 1 = m by omega] at this
        exact this
    · rw [if_pos hlt] at h
      simp only [Prod.mk.injEq] at h
      obtain ⟨rfl, rfl⟩ := h
      have : m = 0 := by
        rcases Nat.eq_zero_or_pos m with h0 | h0
        · exact h0
        · have : d.info.clusterSize ≤ m * d.info.clusterSize := Nat.le_mul_of_pos_left _ h0
          omega
      subst this
      refine ⟨inv, rfl, fun p hp => (by cases hp), fun es he => ?_⟩
      simp only [Outcome.ok.injEq] at he
      subst he
      exact ⟨[], by simp, Entries.nil _ _, Keeps.refl _⟩

/-! ## 4. the data phase -/

/-- one piece: `doWrite_piece` together with `ZInv` -/
theorem doWrite_piece_z {D : Dev} {f : Flat} {o ho : Nat} {toks : List Nat}
    (st : Static D) (mo : MapOK D)
    (ho512 : o % 512 = 0) (hfit : o % D.info.clusterSize + toks.length * 512 ≤ D.info.clusterSize)
    (hov : o < D.info.vsize)
    (hp : L2.plainOffset (D.mapping o) 0 = some ho)
    (hr : RefinesN D f) (z : ZInv D) :
    ∃ D', doWrite (D.l2Entry o) o toks D = (D', .ok ()) ∧ DataStep D D' ∧
      RefinesN D' (f.write o toks) ∧ ZInv D' := by
  obtain ⟨D', hw', hfr, _, hr'⟩ := doWrite_piece (f := f) (toks := toks) st mo ho512 hfit hov hp hr
  have hz' := piece_zinv (toks := toks) st mo ho512 hfit hov hp z
  have hD' := doWrite_plain D o ho toks hp
  rw [hw'] at hD'
  simp only [Prod.mk.injEq, and_true] at hD'
  rw [← hD'] at hz'
  exact ⟨D', hw', hfr, hr', hz'⟩

/-- **the data phase of the multi-cluster path** (`doWrites_step` of RefineWriteMulti without
    the bookkeeping of new-cluster marks, with `ZInv` instead) -/
theorem doWrites_g (i : Info) (fuel : Nat) :
    ∀ off len m toks es (D : Dev) (f : Flat), D.info = i → Static D → MapOK D → RefinesN D f → ZInv D →
      off % 512 = 0 → len % 512 = 0 → len ≠ 0 → off + len ≤ i.vsize → toks.length = len / 512 →
      off % i.clusterSize + len ≤ fuel * i.clusterSize →
      m * i.clusterSize < off % i.clusterSize + len + i.clusterSize →
      off % i.clusterSize + len ≤ m * i.clusterSize →
      Entries D (off / i.clusterSize * i.clusterSize) m es →
      ∃ D', doWrites (pieces i.clusterSize fuel off len) es toks D = (D', .ok ()) ∧ DataStep D D' ∧
        RefinesN D' (flatAfter f (pieces i.clusterSize fuel off len) toks) ∧ ZInv D' := by
  have hcs := cs_pos i
  induction fuel with
  | zero =>
    intro off len m toks es D f _ _ _ _ _ _ _ hl _ _ hf
    omega
  | succ fuel ih =>
    intro off len m toks es D f hi st mo hr hz ho hlen hl hv htl hfuel htight hup hent
    subst hi
    have h512 : D.info.clusterSize % 512 = 0 := by have := cs512 st; omega
    have hmm : off % D.info.clusterSize % 512 = 0 := by
      rw [Nat.mod_mod_of_dvd off (Nat.dvd_of_mod_eq_zero h512)]; exact ho
    have hlt := Nat.mod_lt off hcs
    rw [pieces, if_neg hl]
    generalize hcur : min (D.info.clusterSize - off % D.info.clusterSize) len = cur
    have hc512 : cur % 512 = 0 := by omega
    dsimp only
    have hmpos : 0 < m := by
      rcases Nat.eq_zero_or_pos m with h0 | h0
      · rw [h0] at hup; omega
      · exact h0
    obtain ⟨m', rfl⟩ : ∃ m', m = m' + 1 := ⟨m - 1, by omega⟩
    cases es with
    | nil =>
      have := hent.1
      simp [List.range_succ_eq_map] at this
    | cons e0 es' =>
      obtain ⟨he0, hn0, hent'⟩ := hent.tail
      generalize hrd : off / D.info.clusterSize * D.info.clusterSize = rd at *
      have hrdq : rd / D.info.clusterSize = off / D.info.clusterSize := by
        rw [← hrd]; exact Nat.mul_div_cancel _ hcs
      have hrdle : rd ≤ off := by rw [← hrd]; exact Nat.div_mul_le_self _ _
      have hoff : off = rd + off % D.info.clusterSize := by
        have := Nat.div_add_mod off D.info.clusterSize
        rw [Nat.mul_comm, hrd] at this; omega
      have hrdv : rd < D.info.vsize := by omega
      have hov : off < D.info.vsize := by omega
      obtain ⟨ho', hp'⟩ := needMake_false_plain st.noBackName (mo.ent rd hrdv) hn0
      have hmeq : D.mapping rd = D.mapping off := mapping_congr D hrdq
      have hp : L2.plainOffset (D.mapping off) 0 = some ho' := by rw [← hmeq]; exact hp'
      have he0' : e0 = D.l2Entry off := by rw [he0]; exact l2Entry_congr D hrdq
      have htake : (toks.take (cur / 512)).length = cur / 512 := by
        rw [List.length_take]; omega
      obtain ⟨D1, hw1, hfr1, hr1, hz1⟩ := doWrite_piece_z (f := f) (toks := toks.take (cur / 512)) st mo ho
        (by rw [htake]; omega) hov hp hr hz
      rw [← he0'] at hw1
      by_cases hrest : len - cur = 0
      · rw [hrest, pieces_zero_len]
        exact ⟨D1, doWrites_cons_ok hw1 rfl, hfr1, hr1, hz1⟩
      · have hcur' : cur = D.info.clusterSize - off % D.info.clusterSize := by omega
        obtain ⟨r1, r2, r3⟩ := round_add_rest (off := off) hcs
        rw [← hcur'] at r1 r2 r3
        rw [hrd] at r1 r3
        have st1 := hfr1.static st
        have mo1 := hfr1.mapOK mo
        have hent1 : Entries D1 ((off + cur) / D.info.clusterSize * D.info.clusterSize) m' es' := by
          rw [r1]; exact hent'.keeps hfr1.keeps
        rw [Nat.add_mul, Nat.one_mul] at hfuel htight hup
        obtain ⟨D2, hw2, hfr2, hr2, hz2⟩ := ih (off + cur) (len - cur) m' (toks.drop (cur / 512)) es' D1
          (f.write off (toks.take (cur / 512))) hfr1.info st1 mo1 hr1 hz1 (by omega) (by omega) hrest (by omega)
          (by rw [List.length_drop]; omega) (by omega) (by omega) (by omega)
          hent1
        exact ⟨D2, doWrites_cons_ok hw1 hw2, hfr1.trans hfr2, hr2, hz2⟩


/-! ## 5. the whole `__write_at` -/

/-- **a write spanning several clusters, any outcome, the refcount table may grow** -/
theorem write_multi_g (d d' : Dev) (f : Flat) (off len : Nat) (toks : List Nat) (r : Outcome Unit)
    (wz : WFZ d) (hr : Refines d f)
    (hc : writeCheck d.info off len = none) (hl : len ≠ 0)
    (hmulti : ¬ off / d.info.clusterSize = (off + len - 1) / d.info.clusterSize)
    (htoks : toks.length = len / 512)
    (hw : writeAt off len toks d = (d', r)) (hcap : Cap d') :
    WFZ d' ∧ d'.info = d.info ∧ (∀ p, r ≠ .panic p) ∧
    (r = .ok () → Refines d' (f.write off toks)) ∧ (r ≠ .ok () → Refines d' f) := by
  have hcs := cs_pos d.info
  have hI' := writeAt_hinv wz.hinv hw hcap
  obtain ⟨hv, hlb, hob, _⟩ := writeCheck_none hc
  have ho512 := Qv.Props.C01Refine.mod512_of_mod_bs wz.st.bsb9 hob
  have hl512 := Qv.Props.C01Refine.mod512_of_mod_bs wz.st.bsb9 hlb
  have h512 : d.info.clusterSize % 512 = 0 := by have := cs512 wz.st; omega
  unfold writeAt at hw
  dsimp only at hw
  rw [hc] at hw
  dsimp only at hw
  rw [if_neg hl, if_neg hmulti] at hw
  unfold Info.clusterRoundDown at hw
  obtain ⟨a1, a2, a3, a4, a5, a6, a7⟩ := Qv.Props.C01Refine.multi_arith (off := off) (len := len) hcs
  generalize hstart : off / d.info.clusterSize * d.info.clusterSize = start at *
  generalize hstop : (off + len + d.info.clusterSize - 1) / d.info.clusterSize * d.info.clusterSize = stop at *
  generalize hn : (stop - start) / d.info.clusterSize = n at *
  generalize hmm : makeMultiples stop (n + 1) start [] d = rm at hw
  obtain ⟨d1, (es | e | p)⟩ := rm
  · dsimp only at hw
    generalize hdw : doWrites (pieces d.info.clusterSize (n + 1) off len) es toks d1 = r2 at hw
    obtain ⟨d2, o2⟩ := r2
    have hd2 : d2 = d' := by
      rcases o2 with _ | e | p <;> (simp only [Prod.mk.injEq] at hw; exact hw.1)
    subst hd2
    have hc1 : Cap d1 := ((doWrites_mn _ es toks).rm_of_eq hdw).cap hcap
    obtain ⟨i1, hi1, _, hsucc⟩ := makeMultiples_g f stop d.info a2 (by omega) (n + 1) start n [] d d1 _ rfl
      wz.hinv.winv (wz.gInv hr) wz.hinv.plain a1 a4 (by omega) hmm hc1
    obtain ⟨es', he, hent, _⟩ := hsucc es rfl
    rw [List.nil_append] at he
    subst he
    obtain ⟨D', hw', hfr, hr', hz'⟩ := doWrites_g d.info (n + 1) off len n toks es d1 f hi1
      i1.st i1.map i1.ref i1.z ho512 hl512 hl hv htoks
      (by rw [Nat.add_mul, Nat.one_mul]; omega) a7 a6
      (by rw [hstart]; exact hent)
    rw [hdw] at hw'
    simp only [Prod.mk.injEq] at hw'
    obtain ⟨rfl, rfl⟩ := hw'
    dsimp only at hw
    simp only [Prod.mk.injEq] at hw
    obtain ⟨_, rfl⟩ := hw
    have st' := hfr.static i1.st
    have mo' := hfr.mapOK i1.map
    refine ⟨⟨st', hfr.tabOK i1.tab, mo', hI', hz', i1.q.of_dataStep hfr⟩, hfr.info.trans hi1,
      fun p hp => (by cases hp), fun _ => ?_, fun hne => absurd rfl hne⟩
    apply refines_of_refinesN_z hz' st' mo'
    refine refinesN_sec_congr ?_ hr'
    intro s
    exact (flatAfter_sec hcs h512 (n + 1) f off len toks ho512 hl512
      (by rw [Nat.add_mul, Nat.one_mul]; omega) htoks s).symm
  · simp only [Prod.mk.injEq] at hw
    obtain ⟨rfl, rfl⟩ := hw
    obtain ⟨i1, hi1, _, _⟩ := makeMultiples_g f stop d.info a2 (by omega) (n + 1) start n [] d d1 _ rfl
      wz.hinv.winv (wz.gInv hr) wz.hinv.plain a1 a4 (by omega) hmm hcap
    exact ⟨⟨i1.st, i1.tab, i1.map, hI', i1.z, i1.q⟩, hi1, fun p hp => (by cases hp), fun hx => (by cases hx),
      fun _ => i1.refines⟩
  · simp only [Prod.mk.injEq] at hw
    obtain ⟨rfl, rfl⟩ := hw
    obtain ⟨_, _, np, _⟩ := makeMultiples_g f stop d.info a2 (by omega) (n + 1) start n [] d d1 _ rfl
      wz.hinv.winv (wz.gInv hr) wz.hinv.plain a1 a4 (by omega) hmm hcap
    exact absurd rfl (np p)

/-- **the refinement step for `__write_at`, every request, every outcome, the refcount
    table may grow.**  `WFZ d`, `Refines d f`, the buffer carries `len / 512` sector tokens,
    and after the call the refcount table still describes host offsets below 2^56 (`Cap d'`):
    the device is well-formed again and does not panic; when the call returned `Ok` the
    device shows `f.write off toks`; when it returned `Err` — the request was rejected by
    the validation prologue, or an allocation failed midway (`nospace`, growth refused) —
    it still shows `f`: a failed write changes NO guest sector (clusters it mapped before
    failing are fresh clusters, which hold zeros and replace unallocated / zero clusters). -/
theorem write_g (d d' : Dev) (f : Flat) (off len : Nat) (toks : List Nat) (r : Outcome Unit)
    (wz : WFZ d) (hr : Refines d f) (htoks : toks.length = len / 512)
    (hw : writeAt off len toks d = (d', r)) (hcap : Cap d') :
    WFZ d' ∧ d'.info = d.info ∧ (∀ p, r ≠ .panic p) ∧
    (r = .ok () → Refines d' (f.write off toks)) ∧ (r ≠ .ok () → Refines d' f) := by
  cases hc : writeCheck d.info off len with
  | some e =>
    rw [writeAt_rejected hc] at hw
    simp only [Prod.mk.injEq] at hw
    obtain ⟨rfl, rfl⟩ := hw
    exact ⟨wz, rfl, fun p hp => (by cases hp), fun hx => (by cases hx), fun _ => hr⟩
  | none =>
    by_cases hl : len = 0
    · subst hl
      have ht : toks = [] := List.eq_nil_of_length_eq_zero (by simpa using htoks)
      subst ht
      unfold writeAt at hw
      dsimp only at hw
      rw [hc] at hw
      simp only [if_true, Prod.mk.injEq] at hw
      obtain ⟨rfl, rfl⟩ := hw
      rw [Qv.Spec.Flat.write_nil]
      exact ⟨wz, rfl, fun p hp => (by cases hp), fun _ => hr, fun hne => absurd rfl hne⟩
    · by_cases hs : off / d.info.clusterSize = (off + len - 1) / d.info.clusterSize
      · exact write_single_g d d' f off len toks r wz hr hc hl hs htoks hw hcap
      · exact write_multi_g d d' f off len toks r wz hr hc hl hs htoks hw hcap

end Qv.Model.RG
