import Qv.Spec.Convert
import Qv.Proofs.Flat
/-
Helper lemmas for the copy loops of `rqcow2 convert` (`Qv.Spec.Convert`): the
chunk loop, the padding arithmetic, and the pointwise effect of the two copy
loops on the flat disk.  The property statements are in `Qv/Props/C20.lean`.
-/
namespace Qv.Spec.Convert
open Qv Qv.Spec

/-! ### the chunk loop -/

theorem chunks_succ (total chunk fuel off : Nat) :
    chunks total chunk (fuel + 1) off =
      if off < total then
        if min chunk (total - off) = 0 then []
        else (off, min chunk (total - off)) :: chunks total chunk fuel (off + min chunk (total - off))
      else [] := rfl

/-- with enough fuel and a positive chunk size the loop is one step plus the rest -/
theorem chunks_step (total chunk fuel off : Nat) (hc : 0 < chunk) (h : off < total) :
    chunks total chunk (fuel + 1) off =
      (off, min chunk (total - off)) :: chunks total chunk fuel (off + min chunk (total - off)) := by
  rw [chunks_succ, if_pos h, if_neg (by omega)]

theorem chunks_done (total chunk fuel off : Nat) (h : ¬ off < total) :
    chunks total chunk fuel off = [] := by
  cases fuel with
  | zero => rfl
  | succ n => rw [chunks_succ, if_neg h]

/-- induction principle for folds over the chunk loop: `P off l` for the chunks `l`
    visited from `off` on -/
theorem chunks_induct (total chunk : Nat) (hc : 0 < chunk) (P : Nat → List (Nat × Nat) → Prop)
    (done : P total [])
    (step : ∀ off len rest, off < total → len = min chunk (total - off) → 0 < len →
      P (off + len) rest → P off ((off, len) :: rest)) :
    ∀ fuel off, off ≤ total → total - off < fuel → P off (chunks total chunk fuel off) := by
  intro fuel
  induction fuel with
  | zero => intro off _ h; omega
  | succ n ih =>
    intro off h1 h2
    by_cases h : off < total
    · rw [chunks_step _ _ _ _ hc h]
      exact step off _ _ h rfl (by omega) (ih _ (by omega) (by omega))
    · rw [chunks_done _ _ _ _ h]
      have : off = total := by omega
      rw [this]; exact done

theorem chunkList_induct (total chunk : Nat) (hc : 0 < chunk) (P : Nat → List (Nat × Nat) → Prop)
    (done : P total [])
    (step : ∀ off len rest, off < total → len = min chunk (total - off) → 0 < len →
      P (off + len) rest → P off ((off, len) :: rest)) :
    P 0 (chunkList total chunk) :=
  chunks_induct total chunk hc P done step (total + 1) 0 (Nat.zero_le _) (by omega)

/-! ### padding arithmetic -/

theorem ceil_mul_bounds (x k : Nat) (hk : 0 < k) :
    x ≤ (x + k - 1) / k * k ∧ (x + k - 1) / k * k < x + k := by
  have h1 := Nat.div_add_mod (x + k - 1) k
  have h2 := Nat.mod_lt (x + k - 1) hk
  rw [Nat.mul_comm] at h1
  omega

theorem le_of_multiples {b x y : Nat} (hx : b ∣ x) (hy : b ∣ y) (h : x < y + b) : x ≤ y := by
  obtain ⟨p, rfl⟩ := hx
  obtain ⟨q, rfl⟩ := hy
  have : b * p < b * (q + 1) := by rw [Nat.mul_add, Nat.mul_one]; exact h
  have := Nat.lt_of_mul_lt_mul_left this
  exact Nat.mul_le_mul_left b (by omega)

/-! ### the copy loops, sector by sector -/

theorem getD_take_drop (data : List Nat) (a l i : Nat) :
    ((data.drop a).take l).getD i 0 = if i < l then data.getD (a + i) 0 else 0 := by
  simp only [List.getD_eq_getElem?_getD, List.getElem?_take, List.getElem?_drop]
  split <;> rfl

/-- the fold of `copyIn` over the chunks from `off` on -/
theorem copyIn_fold (data : List Nat) (chunk : Nat) (hc : 0 < chunk) (f : Flat) :
    let r := (chunkList data.length chunk).foldl
      (fun acc c => acc.write (c.1 * 512) ((data.drop c.1).take c.2)) f
    r.vsize = f.vsize ∧ r.cs = f.cs ∧
      ∀ s, r.sec.get s = if s < data.length then data.getD s 0 else f.sec.get s := by
  have := chunkList_induct data.length chunk hc
    (fun off l => ∀ f : Flat,
      let r := l.foldl (fun acc c => acc.write (c.1 * 512) ((data.drop c.1).take c.2)) f
      r.vsize = f.vsize ∧ r.cs = f.cs ∧
        ∀ s, r.sec.get s = if off ≤ s ∧ s < data.length then data.getD s 0 else f.sec.get s)
    ?_ ?_ f
  · simpa using this
  · intro f
    refine ⟨rfl, rfl, ?_⟩
    intro s; rw [if_neg (by omega)]; rfl
  · intro off len rest h1 h2 h3 ih f
    dsimp only
    rw [List.foldl_cons]
    obtain ⟨i1, i2, i3⟩ := ih (f.write (off * 512) ((data.drop off).take len))
    refine ⟨by rw [i1, Flat.write_vsize], by rw [i2, Flat.write_cs], ?_⟩
    intro s
    rw [i3, Flat.write_sec_get]
    have hlen : ((data.drop off).take len).length = len := by
      rw [List.length_take, List.length_drop]; omega
    rw [hlen, Nat.mul_div_cancel _ (by omega : 0 < 512), getD_take_drop]
    by_cases c1 : off + len ≤ s ∧ s < data.length
    · rw [if_pos c1, if_pos (by omega)]
    · rw [if_neg c1]
      by_cases c2 : off ≤ s ∧ s < off + len
      · rw [if_pos c2, if_pos (by omega), if_pos (by omega)]
        congr 1; omega
      · rw [if_neg c2, if_neg (by omega)]

/-- reading chunk by chunk is reading at once -/
theorem copyOut_eq_read (f : Flat) (chunk : Nat) (hc : 0 < chunk) :
    copyOut f chunk = f.read 0 (f.vsize / 512) := by
  unfold copyOut
  dsimp only
  have := chunkList_induct (f.vsize / 512) chunk hc
    (fun off l => l.flatMap (fun c => f.read (c.1 * 512) c.2) =
      (List.range (f.vsize / 512 - off)).map (fun i => f.sec.get (off + i))) ?_ ?_
  · rw [this]; simp [Flat.read]
  · simp
  · intro off len rest h1 h2 h3 ih
    rw [List.flatMap_cons, ih]
    have : f.vsize / 512 - off = len + (f.vsize / 512 - (off + len)) := by omega
    rw [this, List.range_add, List.map_append]
    congr 1
    · simp [Flat.read]
    · simp [List.map_map, Function.comp_def, Nat.add_assoc]

end Qv.Spec.Convert
