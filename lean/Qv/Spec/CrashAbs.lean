/-
Abstract crash-safety theory of a copy-on-write image format with reference
counts under an ordered ("soft update") metadata flush (C04 / C05).

The image is abstracted to three independent maps:
  * `ptr`  reference slot  → referenced cluster (L1/L2 entries, header pointers …)
  * `rc`   cluster         → stored refcount
  * `val`  data location   → value (guest payload of a cluster)
and the host-file requests to single-cell updates of these maps.  The crash
model is the one of the executable oracle `Qv/Spec/Crash.lean`: requests are
issued in order, a `sync` makes everything issued before it durable, and a crash
state is the durable state plus an ARBITRARY SUBSET of the un-synced requests
applied in issue order.

This file holds the definitions and helper lemmas; the headline theorems are in
`Qv/Props/C04.lean` (safety of every crash state) and `Qv/Props/C05.lean`
(durability of synced data).
-/
namespace Qv.Spec.CrashAbs

/-! ## 1. Abstract images and updates -/

structure AImg where
  /-- reference slot → referenced cluster -/
  ptr : Nat → Option Nat
  /-- cluster → stored refcount -/
  rc : Nat → Nat
  /-- data location → value -/
  val : Nat → Nat

inductive Upd where
  | setPtr (s : Nat) (v : Option Nat)
  | setRc (c n : Nat)
  | setVal (l v : Nat)
  deriving DecidableEq, Repr

def applyUpd (a : AImg) : Upd → AImg
  | .setPtr s v => { a with ptr := fun x => if x = s then v else a.ptr x }
  | .setRc c n => { a with rc := fun x => if x = c then n else a.rc x }
  | .setVal l v => { a with val := fun x => if x = l then v else a.val x }

/-- apply every update, in order -/
def applyAll (a : AImg) (us : List Upd) : AImg := us.foldl applyUpd a

/-- apply the updates whose flag is `true`, in order (missing flags = `false`) -/
def applySub : AImg → List Upd → List Bool → AImg
  | a, [], _ => a
  | a, _ :: _, [] => a
  | a, u :: us, k :: ks => applySub (if k then applyUpd a u else a) us ks

/-- number of slots (of the finite slot universe) that reference cluster `c` -/
def refs (slots : List Nat) (a : AImg) (c : Nat) : Nat :=
  (slots.filter (fun s => decide (a.ptr s = some c))).length

/-- no cluster has a stored refcount lower than its number of references
    (a stored refcount that is too HIGH is a leak and is permitted) -/
def Safe (slots : List Nat) (a : AImg) : Prop := ∀ c, refs slots a c ≤ a.rc c

/-- guest-visible content of the block mapped by slot `s` (one-level mapping) -/
def read (a : AImg) (s : Nat) : Option Nat := (a.ptr s).map a.val

/-! ### list helpers -/

theorem filter_length_mono {α} (l : List α) (p q : α → Bool)
    (h : ∀ x ∈ l, p x = true → q x = true) :
    (l.filter p).length ≤ (l.filter q).length := by
  induction l with
  | nil => simp
  | cons x xs ih =>
    have ih' := ih (fun y hy => h y (List.mem_cons_of_mem _ hy))
    have hx := h x (List.mem_cons_self ..)
    simp only [List.filter_cons]
    cases hp : p x with
    | false =>
      cases hq : q x with
      | false => simpa using ih'
      | true => simp; omega
    | true =>
      simp [hx hp]; omega

theorem filter_length_lt {α} (l : List α) (p q : α → Bool)
    (h : ∀ x ∈ l, p x = true → q x = true) (s : α) (hs : s ∈ l)
    (hq : q s = true) (hp : p s = false) :
    (l.filter p).length < (l.filter q).length := by
  induction l with
  | nil => cases hs
  | cons x xs ih =>
    have hmono := filter_length_mono xs p q (fun y hy => h y (List.mem_cons_of_mem _ hy))
    have hx := h x (List.mem_cons_self ..)
    simp only [List.filter_cons]
    rcases List.mem_cons.mp hs with rfl | hs'
    · simp [hq, hp]; omega
    · have ih' := ih (fun y hy => h y (List.mem_cons_of_mem _ hy)) hs'
      cases hpx : p x with
      | false =>
        cases hqx : q x with
        | false => simpa using ih'
        | true => simp; omega
      | true => simp [hx hpx]; omega

theorem filter_length_le_one (l : List Nat) (hnd : l.Nodup) (p : Nat → Bool) (s : Nat)
    (h : ∀ x ∈ l, p x = true → x = s) : (l.filter p).length ≤ 1 := by
  induction l with
  | nil => simp
  | cons x xs ih =>
    have hnd' := List.nodup_cons.mp hnd
    have ih' := ih hnd'.2 (fun y hy => h y (List.mem_cons_of_mem _ hy))
    simp only [List.filter_cons]
    cases hpx : p x with
    | false => simpa using ih'
    | true =>
      have hxs : x = s := h x (List.mem_cons_self ..) hpx
      have : xs.filter p = [] := by
        apply List.filter_eq_nil_iff.mpr
        intro y hy hpy
        have := h y (List.mem_cons_of_mem _ hy) hpy
        exact hnd'.1 (by rw [hxs, ← this]; exact hy)
      simp [this]

/-! ### `applyAll` / `applySub` -/

@[simp] theorem applyAll_nil (a : AImg) : applyAll a [] = a := rfl
@[simp] theorem applyAll_cons (a : AImg) (u : Upd) (us : List Upd) :
    applyAll a (u :: us) = applyAll (applyUpd a u) us := rfl
theorem applyAll_append (a : AImg) (us vs : List Upd) :
    applyAll a (us ++ vs) = applyAll (applyAll a us) vs := by
  simp [applyAll, List.foldl_append]

@[simp] theorem applySub_nil (a : AImg) (keep : List Bool) : applySub a [] keep = a := by
  simp [applySub]
@[simp] theorem applySub_nil_keep (a : AImg) (us : List Upd) : applySub a us [] = a := by
  cases us <;> simp [applySub]
@[simp] theorem applySub_cons_true (a : AImg) (u : Upd) (us : List Upd) (ks : List Bool) :
    applySub a (u :: us) (true :: ks) = applySub (applyUpd a u) us ks := by
  simp [applySub]
@[simp] theorem applySub_cons_false (a : AImg) (u : Upd) (us : List Upd) (ks : List Bool) :
    applySub a (u :: us) (false :: ks) = applySub a us ks := by
  simp [applySub]

/-- applying a prefix completely and then a subset of the rest is a subset
    application of the whole list -/
theorem applySub_append_true (a : AImg) (us vs : List Upd) (keep : List Bool) :
    applySub a (us ++ vs) (List.replicate us.length true ++ keep) =
      applySub (applyAll a us) vs keep := by
  induction us generalizing a with
  | nil => simp
  | cons u us ih => simp [List.replicate_succ, ih]

theorem applySub_all_true (a : AImg) (us : List Upd) :
    applySub a us (List.replicate us.length true) = applyAll a us := by
  have := applySub_append_true a us [] []
  simpa using this

/-- provenance of a pointer in a subset application -/
theorem applySub_ptr (a : AImg) (us : List Upd) (keep : List Bool) (s : Nat) :
    (applySub a us keep).ptr s = a.ptr s ∨
      ∃ v, Upd.setPtr s v ∈ us ∧ (applySub a us keep).ptr s = v := by
  induction us generalizing a keep with
  | nil => left; simp
  | cons u us ih =>
    cases keep with
    | nil => left; simp
    | cons k ks =>
      cases k with
      | false =>
        rcases ih a ks with h | ⟨v, hv, h⟩
        · left; simpa using h
        · right; exact ⟨v, List.mem_cons_of_mem _ hv, by simpa using h⟩
      | true =>
        rw [applySub_cons_true]
        rcases ih (applyUpd a u) ks with h | ⟨v, hv, h⟩
        · rw [h]
          cases u with
          | setPtr s' v =>
            by_cases hs : s = s'
            · right; exact ⟨v, by simp [hs], by simp [applyUpd, hs]⟩
            · left; simp [applyUpd, hs]
          | setRc c n => left; simp [applyUpd]
          | setVal l v => left; simp [applyUpd]
        · right; exact ⟨v, List.mem_cons_of_mem _ hv, h⟩

/-- provenance of a stored refcount in a subset application -/
theorem applySub_rc (a : AImg) (us : List Upd) (keep : List Bool) (c : Nat) :
    (applySub a us keep).rc c = a.rc c ∨
      ∃ n, Upd.setRc c n ∈ us ∧ (applySub a us keep).rc c = n := by
  induction us generalizing a keep with
  | nil => left; simp
  | cons u us ih =>
    cases keep with
    | nil => left; simp
    | cons k ks =>
      cases k with
      | false =>
        rcases ih a ks with h | ⟨v, hv, h⟩
        · left; simpa using h
        · right; exact ⟨v, List.mem_cons_of_mem _ hv, by simpa using h⟩
      | true =>
        rw [applySub_cons_true]
        rcases ih (applyUpd a u) ks with h | ⟨v, hv, h⟩
        · rw [h]
          cases u with
          | setRc c' n =>
            by_cases hs : c = c'
            · right; exact ⟨n, by simp [hs], by simp [applyUpd, hs]⟩
            · left; simp [applyUpd, hs]
          | setPtr s v => left; simp [applyUpd]
          | setVal l v => left; simp [applyUpd]
        · right; exact ⟨v, List.mem_cons_of_mem _ hv, h⟩

/-- provenance of a data value in a subset application -/
theorem applySub_val (a : AImg) (us : List Upd) (keep : List Bool) (l : Nat) :
    (applySub a us keep).val l = a.val l ∨
      ∃ v, Upd.setVal l v ∈ us ∧ (applySub a us keep).val l = v := by
  induction us generalizing a keep with
  | nil => left; simp
  | cons u us ih =>
    cases keep with
    | nil => left; simp
    | cons k ks =>
      cases k with
      | false =>
        rcases ih a ks with h | ⟨v, hv, h⟩
        · left; simpa using h
        · right; exact ⟨v, List.mem_cons_of_mem _ hv, by simpa using h⟩
      | true =>
        rw [applySub_cons_true]
        rcases ih (applyUpd a u) ks with h | ⟨v, hv, h⟩
        · rw [h]
          cases u with
          | setVal l' w =>
            by_cases hs : l = l'
            · right; exact ⟨w, by simp [hs], by simp [applyUpd, hs]⟩
            · left; simp [applyUpd, hs]
          | setPtr s v => left; simp [applyUpd]
          | setRc c n => left; simp [applyUpd]
        · right; exact ⟨v, List.mem_cons_of_mem _ hv, h⟩

/-! ## 2. Logs, durable state, pending set, crash states -/

inductive Ev where
  | upd (u : Upd)
  | sync
  deriving DecidableEq, Repr

/-- all updates of a log, in issue order (syncs dropped) -/
def updates (log : List Ev) : List Upd :=
  log.filterMap (fun e => match e with | .upd u => some u | .sync => none)

/-- one step of the host-file state machine on (durable image, pending updates) -/
def step (st : AImg × List Upd) : Ev → AImg × List Upd
  | .upd u => (st.1, st.2 ++ [u])
  | .sync => (applyAll st.1 st.2, [])

def run (st : AImg × List Upd) (log : List Ev) : AImg × List Upd := log.foldl step st

/-- the same machine restricted to the pending component (it does not depend
    on the image) -/
def pendStep (p : List Upd) : Ev → List Upd
  | .upd u => p ++ [u]
  | .sync => []

/-- the durable image: everything up to the last sync applied -/
def durable (a : AImg) (log : List Ev) : AImg := (run (a, []) log).1

/-- the un-synced updates: everything after the last sync -/
def pending (log : List Ev) : List Upd := log.foldl pendStep []

/-- the crash state at crash point `k` (after `k` events were issued) in which
    the subset `keep` of the pending updates reached the medium -/
def crashAt (a : AImg) (log : List Ev) (k : Nat) (keep : List Bool) : AImg :=
  applySub (durable a (log.take k)) (pending (log.take k)) keep

/-- the set of crash states of a log -/
def CrashStates (a : AImg) (log : List Ev) (s : AImg) : Prop :=
  ∃ k keep, s = crashAt a log k keep

@[simp] theorem updates_nil : updates [] = [] := rfl
@[simp] theorem updates_cons_upd (u : Upd) (l : List Ev) :
    updates (.upd u :: l) = u :: updates l := by simp [updates]
@[simp] theorem updates_cons_sync (l : List Ev) : updates (.sync :: l) = updates l := by
  simp [updates]
theorem updates_append (l₁ l₂ : List Ev) : updates (l₁ ++ l₂) = updates l₁ ++ updates l₂ := by
  simp [updates, List.filterMap_append]

theorem mem_updates {u : Upd} {l : List Ev} : u ∈ updates l ↔ Ev.upd u ∈ l := by
  induction l with
  | nil => simp
  | cons e l ih => cases e <;> simp [ih]

theorem mem_updates_take {u : Upd} {l : List Ev} {j : Nat} (h : u ∈ updates (l.take j)) :
    u ∈ updates l :=
  mem_updates.mpr (List.mem_of_mem_take (mem_updates.mp h))

@[simp] theorem run_nil (st : AImg × List Upd) : run st [] = st := rfl
@[simp] theorem run_cons (st : AImg × List Upd) (e : Ev) (l : List Ev) :
    run st (e :: l) = run (step st e) l := rfl
theorem run_append (st : AImg × List Upd) (l₁ l₂ : List Ev) :
    run st (l₁ ++ l₂) = run (run st l₁) l₂ := by simp [run, List.foldl_append]

theorem run_snd (st : AImg × List Upd) (log : List Ev) :
    (run st log).2 = log.foldl pendStep st.2 := by
  induction log generalizing st with
  | nil => rfl
  | cons e l ih => cases e <;> simp [ih, step, pendStep]

theorem pending_eq_run (a : AImg) (log : List Ev) : pending log = (run (a, []) log).2 := by
  rw [run_snd]; rfl

/-- run invariant: the durable image is the start image with a prefix `pre` of
    all issued updates applied, the pending list is the rest -/
theorem run_split (d : AImg) (p : List Upd) (log : List Ev) :
    ∃ pre, (run (d, p) log).1 = applyAll d pre ∧
      p ++ updates log = pre ++ (run (d, p) log).2 := by
  induction log generalizing d p with
  | nil => exact ⟨[], by simp⟩
  | cons e l ih =>
    cases e with
    | upd u =>
      obtain ⟨pre, h1, h2⟩ := ih d (p ++ [u])
      exact ⟨pre, by simpa [step] using h1, by simpa [step] using h2⟩
    | sync =>
      obtain ⟨pre, h1, h2⟩ := ih (applyAll d p) []
      refine ⟨p ++ pre, ?_, ?_⟩
      · simpa [step, applyAll_append] using h1
      · simpa [step, List.append_assoc] using h2

/-- flushing the pending set of a run gives the image with all issued updates -/
theorem run_flush (d : AImg) (p : List Upd) (log : List Ev) :
    applyAll (run (d, p) log).1 (run (d, p) log).2 = applyAll (applyAll d p) (updates log) := by
  obtain ⟨pre, h1, h2⟩ := run_split d p log
  rw [h1, ← applyAll_append, ← h2, applyAll_append]

@[simp] theorem durable_nil (a : AImg) : durable a [] = a := rfl
@[simp] theorem pending_nil : pending [] = [] := rfl

theorem durable_snoc_upd (a : AImg) (log : List Ev) (u : Upd) :
    durable a (log ++ [.upd u]) = durable a log := by
  simp [durable, run_append, step]

theorem pending_snoc_upd (log : List Ev) (u : Upd) :
    pending (log ++ [.upd u]) = pending log ++ [u] := by
  simp [pending, List.foldl_append, pendStep]

theorem durable_snoc_sync (a : AImg) (log : List Ev) :
    durable a (log ++ [.sync]) = applyAll (durable a log) (pending log) := by
  simp [durable, run_append, step, pending_eq_run a]

theorem pending_snoc_sync (log : List Ev) : pending (log ++ [.sync]) = [] := by
  simp [pending, List.foldl_append, pendStep]

/-- a sync makes everything before it durable: after `l₁ ++ [sync]` the machine
    restarts from the image with ALL updates of `l₁` applied -/
theorem run_after_sync (a : AImg) (l₁ l : List Ev) :
    run (a, []) (l₁ ++ .sync :: l) = run (applyAll a (updates l₁), []) l := by
  rw [run_append, run_cons]
  have h := run_flush a [] l₁
  simp only [applyAll_nil] at h
  simp [step, h]

theorem durable_after_sync (a : AImg) (l₁ l : List Ev) :
    durable a (l₁ ++ .sync :: l) = durable (applyAll a (updates l₁)) l := by
  simp [durable, run_after_sync]

theorem pending_after_sync (l₁ l : List Ev) : pending (l₁ ++ .sync :: l) = pending l := by
  simp [pending, List.foldl_append, pendStep]

/-- without a sync nothing becomes durable -/
theorem durable_no_sync (a : AImg) (log : List Ev) (h : Ev.sync ∉ log) : durable a log = a := by
  suffices ∀ p, (run (a, p) log).1 = a from this []
  induction log with
  | nil => intro p; rfl
  | cons e l ih =>
    intro p
    cases e with
    | upd u => simpa [step] using ih (fun hm => h (List.mem_cons_of_mem _ hm)) (p ++ [u])
    | sync => exact absurd (List.mem_cons_self ..) h

theorem pending_no_sync (log : List Ev) (h : Ev.sync ∉ log) : pending log = updates log := by
  suffices ∀ p, log.foldl pendStep p = p ++ updates log by simpa [pending] using this []
  induction log with
  | nil => intro p; simp
  | cons e l ih =>
    intro p
    cases e with
    | upd u => simp [pendStep, ih (fun hm => h (List.mem_cons_of_mem _ hm))]
    | sync => exact absurd (List.mem_cons_self ..) h

/-- "apply everything up to the last sync" -/
theorem durable_last_sync (a : AImg) (l₁ l₂ : List Ev) (h : Ev.sync ∉ l₂) :
    durable a (l₁ ++ .sync :: l₂) = applyAll a (updates l₁) := by
  rw [durable_after_sync, durable_no_sync _ _ h]

/-- "the updates after the last sync" -/
theorem pending_last_sync (l₁ l₂ : List Ev) (h : Ev.sync ∉ l₂) :
    pending (l₁ ++ .sync :: l₂) = updates l₂ := by
  rw [pending_after_sync, pending_no_sync _ h]

/-- every crash state is a subset application of ALL updates issued so far -/
theorem crashAt_eq_applySub (a : AImg) (log : List Ev) (k : Nat) (keep : List Bool) :
    ∃ keep', crashAt a log k keep = applySub a (updates (log.take k)) keep' := by
  obtain ⟨pre, h1, h2⟩ := run_split a [] (log.take k)
  refine ⟨List.replicate pre.length true ++ keep, ?_⟩
  simp only [List.nil_append] at h2
  rw [h2, applySub_append_true, crashAt, pending_eq_run a, durable, h1]

/-- crash points after a sync only see the synced image and the later events -/
theorem crashAt_after_sync (a : AImg) (l₁ l₂ : List Ev) (j : Nat) (keep : List Bool) :
    crashAt a (l₁ ++ .sync :: l₂) (l₁.length + 1 + j) keep =
      crashAt (applyAll a (updates l₁)) l₂ j keep := by
  have ht : (l₁ ++ .sync :: l₂).take (l₁.length + 1 + j) = l₁ ++ .sync :: l₂.take j := by
    have : l₁ ++ Ev.sync :: l₂ = (l₁ ++ [Ev.sync]) ++ l₂ := by simp
    rw [this]
    have hl : l₁.length + 1 + j = (l₁ ++ [Ev.sync]).length + j := by simp
    rw [hl, List.take_length_add_append]; simp
  simp only [crashAt, ht, durable_after_sync, pending_after_sync]

theorem crashAt_ge_length (a : AImg) (log : List Ev) (k : Nat) (hk : log.length ≤ k)
    (keep : List Bool) : crashAt a log k keep = crashAt a log log.length keep := by
  simp [crashAt, List.take_of_length_le hk]

/-- crash states of a prefix are crash states of the whole log -/
theorem CrashStates_take (a : AImg) (log : List Ev) (j : Nat) (s : AImg)
    (h : CrashStates a (log.take j) s) : CrashStates a log s := by
  obtain ⟨k, keep, rfl⟩ := h
  exact ⟨min k j, keep, by simp [crashAt, List.take_take]⟩

/-! ## 3. The epoch monitor -/

/-- minimum of `m` and every `n` with `setRc c n ∈ us` -/
def minRcFrom (c m : Nat) : List Upd → Nat
  | [] => m
  | .setRc c' n :: us => if c' = c then min n (minRcFrom c m us) else minRcFrom c m us
  | .setPtr _ _ :: us => minRcFrom c m us
  | .setVal _ _ :: us => minRcFrom c m us

/-- the lowest value the stored refcount of `c` can have in a crash state -/
def minRc (d : AImg) (us : List Upd) (c : Nat) : Nat := minRcFrom c (d.rc c) us

/-- slot `s` points to `c` in SOME crash state (over-approximation) -/
def mayPoint (d : AImg) (us : List Upd) (s c : Nat) : Prop :=
  d.ptr s = some c ∨ Upd.setPtr s (some c) ∈ us

def setsPtrB (us : List Upd) (s c : Nat) : Bool :=
  us.any (fun u => match u with
    | .setPtr s' (some c') => s' == s && c' == c
    | _ => false)

def mayPointB (d : AImg) (us : List Upd) (s c : Nat) : Bool :=
  decide (d.ptr s = some c) || setsPtrB us s c

/-- the largest number of references `c` can have in a crash state
    (over-approximation) -/
def maxRefs (slots : List Nat) (d : AImg) (us : List Upd) (c : Nat) : Nat :=
  (slots.filter (fun s => mayPointB d us s c)).length

theorem setsPtrB_iff (us : List Upd) (s c : Nat) :
    setsPtrB us s c = true ↔ Upd.setPtr s (some c) ∈ us := by
  induction us with
  | nil => simp [setsPtrB]
  | cons u us ih =>
    have hc : setsPtrB (u :: us) s c =
        ((match u with
          | .setPtr s' (some c') => s' == s && c' == c
          | _ => false) || setsPtrB us s c) := by
      simp [setsPtrB]
    rw [hc, Bool.or_eq_true, ih]
    cases u with
    | setPtr s' v =>
      cases v with
      | none => simp
      | some c' =>
        simp only [Bool.and_eq_true, beq_iff_eq, List.mem_cons, Upd.setPtr.injEq,
          Option.some.injEq]
        constructor
        · rintro (⟨h1, h2⟩ | h)
          · exact Or.inl ⟨h1.symm, h2.symm⟩
          · exact Or.inr h
        · rintro (⟨h1, h2⟩ | h)
          · exact Or.inl ⟨h1.symm, h2.symm⟩
          · exact Or.inr h
    | setRc c' n => simp
    | setVal l v => simp

theorem mayPointB_iff (d : AImg) (us : List Upd) (s c : Nat) :
    mayPointB d us s c = true ↔ mayPoint d us s c := by
  simp [mayPointB, mayPoint, setsPtrB_iff]

instance (d : AImg) (us : List Upd) (s c : Nat) : Decidable (mayPoint d us s c) :=
  decidable_of_iff _ (mayPointB_iff d us s c)

theorem minRcFrom_le_init (c m : Nat) (us : List Upd) : minRcFrom c m us ≤ m := by
  induction us with
  | nil => simp [minRcFrom]
  | cons u us ih =>
    cases u with
    | setRc c' n =>
      simp only [minRcFrom]; split
      · exact Nat.le_trans (Nat.min_le_right ..) ih
      · exact ih
    | setPtr s v => simpa [minRcFrom] using ih
    | setVal l v => simpa [minRcFrom] using ih

theorem minRcFrom_le_mem (c m n : Nat) (us : List Upd) (h : Upd.setRc c n ∈ us) :
    minRcFrom c m us ≤ n := by
  induction us with
  | nil => cases h
  | cons u us ih =>
    rcases List.mem_cons.mp h with rfl | h'
    · simp only [minRcFrom, if_true]; exact Nat.min_le_left ..
    · have := ih h'
      cases u with
      | setRc c' n' =>
        simp only [minRcFrom]; split
        · exact Nat.le_trans (Nat.min_le_right ..) this
        · exact this
      | setPtr s v => simpa [minRcFrom] using this
      | setVal l v => simpa [minRcFrom] using this

/-- the minimum is attained -/
theorem minRcFrom_attained (c m : Nat) (us : List Upd) :
    minRcFrom c m us = m ∨ ∃ n, Upd.setRc c n ∈ us ∧ minRcFrom c m us = n := by
  induction us with
  | nil => left; rfl
  | cons u us ih =>
    cases u with
    | setRc c' n =>
      simp only [minRcFrom]; split
      · rename_i hc
        subst hc
        rcases Nat.le_total n (minRcFrom c' m us) with hle | hle
        · right; exact ⟨n, List.mem_cons_self .., Nat.min_eq_left hle⟩
        · rw [Nat.min_eq_right hle]
          rcases ih with h | ⟨n', hn', h⟩
          · left; exact h
          · right; exact ⟨n', List.mem_cons_of_mem _ hn', h⟩
      · rcases ih with h | ⟨n', hn', h⟩
        · left; exact h
        · right; exact ⟨n', List.mem_cons_of_mem _ hn', h⟩
    | setPtr s v =>
      simp only [minRcFrom]
      rcases ih with h | ⟨n', hn', h⟩
      · left; exact h
      · right; exact ⟨n', List.mem_cons_of_mem _ hn', h⟩
    | setVal l v =>
      simp only [minRcFrom]
      rcases ih with h | ⟨n', hn', h⟩
      · left; exact h
      · right; exact ⟨n', List.mem_cons_of_mem _ hn', h⟩

theorem minRcFrom_eq_init (c m : Nat) (us : List Upd)
    (h : ∀ n, Upd.setRc c n ∈ us → m ≤ n) : minRcFrom c m us = m := by
  rcases minRcFrom_attained c m us with h' | ⟨n, hn, h'⟩
  · exact h'
  · have h1 := h n hn
    have h2 := minRcFrom_le_init c m us
    omega

/-- the stored refcount of a crash state is never below `minRc` -/
theorem minRc_le_applySub (d : AImg) (us : List Upd) (keep : List Bool) (c : Nat) :
    minRc d us c ≤ (applySub d us keep).rc c := by
  rcases applySub_rc d us keep c with h | ⟨n, hn, h⟩
  · rw [h]; exact minRcFrom_le_init ..
  · rw [h]; exact minRcFrom_le_mem _ _ _ _ hn

/-- the references of a crash state are never above `maxRefs` -/
theorem refs_applySub_le_maxRefs (slots : List Nat) (d : AImg) (us : List Upd)
    (keep : List Bool) (c : Nat) :
    refs slots (applySub d us keep) c ≤ maxRefs slots d us c := by
  apply filter_length_mono
  intro s _ hs
  rw [mayPointB_iff]
  have hs' : (applySub d us keep).ptr s = some c := by simpa using hs
  rcases applySub_ptr d us keep s with h | ⟨v, hv, h⟩
  · left; rw [← h]; exact hs'
  · right; rw [← hs', h]; exact hv

theorem refs_le_maxRefs (slots : List Nat) (d : AImg) (us : List Upd) (c : Nat) :
    refs slots d c ≤ maxRefs slots d us c := by
  have := refs_applySub_le_maxRefs slots d us [] c
  simpa using this

theorem maxRefs_eq_zero (slots : List Nat) (d : AImg) (us : List Upd) (c : Nat)
    (h : ∀ s ∈ slots, ¬ mayPoint d us s c) : maxRefs slots d us c = 0 := by
  unfold maxRefs
  rw [List.length_eq_zero_iff, List.filter_eq_nil_iff]
  intro s hs hm
  exact h s hs ((mayPointB_iff ..).mp hm)

/-- without a pending pointer store to `c`, the bound is the durable count -/
theorem maxRefs_eq_refs (slots : List Nat) (d : AImg) (us : List Upd) (c : Nat)
    (h : ∀ s ∈ slots, Upd.setPtr s (some c) ∉ us) : maxRefs slots d us c = refs slots d c := by
  apply Nat.le_antisymm _ (refs_le_maxRefs ..)
  apply filter_length_mono
  intro s hs hm
  rcases (mayPointB_iff ..).mp hm with h' | h'
  · simpa using h'
  · exact absurd h' (h s hs)

theorem refs_eq_zero_iff (slots : List Nat) (a : AImg) (c : Nat) :
    refs slots a c = 0 ↔ ∀ s ∈ slots, a.ptr s ≠ some c := by
  unfold refs
  rw [List.length_eq_zero_iff, List.filter_eq_nil_iff]
  simp

/-- the executable monitor over a finite list of relevant clusters -/
def epochSafeB (slots clusters : List Nat) (d : AImg) (us : List Upd) : Bool :=
  clusters.all (fun c => decide (maxRefs slots d us c ≤ minRc d us c))

def ptrTargets (us : List Upd) : List Nat :=
  us.filterMap (fun u => match u with
    | .setPtr _ (some c) => some c
    | _ => none)

/-- every cluster some slot may point to -/
def targets (slots : List Nat) (d : AImg) (us : List Upd) : List Nat :=
  slots.filterMap d.ptr ++ ptrTargets us

theorem mem_targets_of_mayPoint (slots : List Nat) (d : AImg) (us : List Upd) (s c : Nat)
    (hs : s ∈ slots) (h : mayPoint d us s c) : c ∈ targets slots d us := by
  unfold targets
  rw [List.mem_append]
  rcases h with h | h
  · left; exact List.mem_filterMap.mpr ⟨s, hs, h⟩
  · right; exact List.mem_filterMap.mpr ⟨_, h, rfl⟩

/-- the executable monitor over whole logs: every crash point is checked -/
def logSafeB (slots : List Nat) (a : AImg) (log : List Ev) : Bool :=
  (List.range (log.length + 1)).all (fun k =>
    let d := durable a (log.take k)
    let us := pending (log.take k)
    epochSafeB slots (targets slots d us) d us)

/-! ## 4. The soft-update discipline -/

/-- the discipline at one crash point (durable image `d`, pending updates `us`):
    (i) increment-before-pointer: whenever a pointer store to `c` is pending,
        every value the refcount of `c` can take in a crash state is at least
        the number of slots that may point to `c`;
    (ii) unmap-before-decrement: the same inequality whenever a refcount store
        that LOWERS the durable refcount of `c` is pending. -/
def EpochDisciplined (slots : List Nat) (d : AImg) (us : List Upd) : Prop :=
  (∀ s c, s ∈ slots → Upd.setPtr s (some c) ∈ us → maxRefs slots d us c ≤ minRc d us c) ∧
  (∀ c n, Upd.setRc c n ∈ us → n < d.rc c → maxRefs slots d us c ≤ minRc d us c)

/-- the discipline holds at every crash point of the log -/
def Disciplined (slots : List Nat) (a : AImg) (log : List Ev) : Prop :=
  ∀ k, EpochDisciplined slots (durable a (log.take k)) (pending (log.take k))

/-- on a Safe durable image the discipline gives the full monitor condition -/
theorem EpochDisciplined.monitor {slots : List Nat} {d : AImg} {us : List Upd}
    (hs : Safe slots d) (h : EpochDisciplined slots d us) (c : Nat) :
    maxRefs slots d us c ≤ minRc d us c := by
  by_cases h1 : ∃ s, s ∈ slots ∧ Upd.setPtr s (some c) ∈ us
  · obtain ⟨s, hs1, hs2⟩ := h1
    exact h.1 s c hs1 hs2
  · by_cases h2 : ∃ n, Upd.setRc c n ∈ us ∧ n < d.rc c
    · obtain ⟨n, hn1, hn2⟩ := h2
      exact h.2 c n hn1 hn2
    · have e1 : maxRefs slots d us c = refs slots d c :=
        maxRefs_eq_refs slots d us c (fun s hs' hm => h1 ⟨s, hs', hm⟩)
      have e2 : minRc d us c = d.rc c :=
        minRcFrom_eq_init c (d.rc c) us (fun n hn => by
          apply Nat.le_of_not_lt
          intro hlt
          exact h2 ⟨n, hn, hlt⟩)
      rw [e1, e2]; exact hs c

/-- what a read through slot `s` depends on: the slot itself and the location
    `tgt` it points to -/
def touches (s : Nat) (tgt : Option Nat) : Upd → Prop
  | .setPtr s' _ => s' = s
  | .setVal l _ => tgt = some l
  | .setRc _ _ => False

/-! ## 5. Tiny concrete images used by the witnesses and non-vacuity examples -/
namespace Ex

/-- the empty image: nothing mapped, all refcounts 0 -/
def img0 : AImg := { ptr := fun _ => none, rc := fun _ => 0, val := fun _ => 0 }

/-- slot 0 → cluster 5 with refcount 1 -/
def img1 : AImg :=
  { ptr := fun s => if s = 0 then some 5 else none
    rc := fun c => if c = 5 then 1 else 0
    val := fun _ => 0 }

/-- slot 0 → cluster 7 (refcount 1) holding the value 11 -/
def img2 : AImg :=
  { ptr := fun s => if s = 0 then some 7 else none
    rc := fun c => if c = 7 then 1 else 0
    val := fun l => if l = 7 then 11 else 0 }

end Ex

end Qv.Spec.CrashAbs
