/-
Host-file crash semantics (C04/C05, DESIGN 3.4): requests are writes (payload)
or punches (zeroing, keeps the length); a sync makes everything issued before
it durable; a crash state applies an arbitrary subset of the un-synced requests,
each possibly torn at block granularity.
-/
namespace Qv.Spec.Crash

structure Req where
  off : Nat
  len : Nat
  data : Option (Array UInt8)     -- none = punch / zero range (never extends the file)
  deriving Inhabited

def zeros (n : Nat) : ByteArray := ⟨Array.replicate n 0⟩

/-- effect of one request on the host file (byte-wise, in place when the array
    is not shared) -/
def apply (b : ByteArray) (r : Req) : ByteArray := Id.run do
  match r.data with
  | some d =>
    if d.size = 0 then return b
    let mut out := if r.off + d.size > b.size then b ++ zeros (r.off + d.size - b.size) else b
    for i in [0:d.size] do
      out := out.set! (r.off + i) d[i]!
    return out
  | none =>
    if r.off ≥ b.size then return b
    let n := min r.len (b.size - r.off)
    let mut out := b
    for i in [0:n] do
      out := out.set! (r.off + i) 0
    return out

/-- index subsets (ascending) explored at a crash point with `n` pending
    requests; every subset contains the newest request `n-1` (subsets without
    it were crash states of an earlier point), plus the empty one when `n = 1` -/
def subsetsFor (n seed : Nat) (thorough : Bool) : List (List Nat) :=
  if n = 0 then [[]] else
  let last := n - 1
  let all := List.range n
  let near := (List.range last).filter (fun x => x + 12 ≥ last)
  let base : List (List Nat) :=
    [[last], all] ++ near.map (fun x => all.filter (· ≠ x)) ++ near.map (fun x => [x, last]) ++
    near.map (fun x => (List.range (x + 1)) ++ (if x + 1 ≤ last then [last] else []))
  let rnd := (List.range (if thorough then 12 else 4)).map (fun j =>
    let s := seed + j * 2654435761
    (List.range last).filter (fun x => ((s / 2^(x % 31)) + x * 40503 + j) % 2 = 1) ++ [last])
  let full : List (List Nat) :=
    if thorough ∧ n ≤ 9 then
      (List.range (2^last)).map (fun m => (List.range last).filter (fun x => (m / 2^x) % 2 = 1) ++ [last])
    else []
  let l := (if n = 1 then [[]] else []) ++ base ++ rnd ++ full
  l.eraseDups

/-- the requests of subset `sub`, in issue order, plus torn variants of the
    newest one (only its first block, only its last block, all but the first) -/
def tearings (pending : Array Req) (sub : List Nat) (bs : Nat) : List (Array Req) :=
  let reqs := (sub.map (fun i => pending[i]!)).toArray
  match sub.getLast? with
  | none => [reqs]
  | some li =>
    let r := pending[li]!
    match r.data with
    | some d =>
      if d.size > bs ∧ bs > 0 then
        let pre := reqs.pop
        let firstBlk : Req := { off := r.off, len := bs, data := some (d.extract 0 bs) }
        let lastBlk : Req := { off := r.off + d.size - bs, len := bs, data := some (d.extract (d.size - bs) d.size) }
        let butFirst : Req := { off := r.off + bs, len := d.size - bs, data := some (d.extract bs d.size) }
        [reqs, pre.push firstBlk, pre.push lastBlk, pre.push butFirst]
      else [reqs]
    | none => [reqs]

end Qv.Spec.Crash
