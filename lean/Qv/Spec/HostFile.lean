/-
The reference host-file model the checks run against (C19): what every
`Qcow2IoOps` backend has to implement.  A file is its length and its bytes;
`read` is short at end of file, `write` extends the file (zero fill of a gap),
`punch` (hole punch with KEEP_SIZE, what all three backends issue for
`fallocate` whatever the flags) keeps the length and reads back zeros, the
zero-write fallback of `call_fallocate` writes zeros (and may extend), `fsync`
does not change contents.
-/
namespace Qv.Spec

structure HostFile where
  len : Nat
  byte : Nat → UInt8          -- only positions < len are meaningful

namespace HostFile

def empty : HostFile := { len := 0, byte := fun _ => 0 }

/-- byte at `i` as a reader sees it -/
def byteAt (f : HostFile) (i : Nat) : UInt8 := if i < f.len then f.byte i else 0

/-- `read_to(off, buf of n bytes)`: the bytes returned (short at EOF) -/
def read (f : HostFile) (off n : Nat) : List UInt8 :=
  (List.range (min n (f.len - off))).map (fun k => f.byte (off + k))

/-- `write_from(off, data)` -/
def write (f : HostFile) (off : Nat) (data : List UInt8) : HostFile :=
  if data.isEmpty then f else
  { len := max f.len (off + data.length),
    byte := fun i => if off ≤ i ∧ i < off + data.length then data.getD (i - off) 0
                     else if i < f.len then f.byte i else 0 }

/-- `fallocate(off, n, _)` = punch hole, keep size -/
def punch (f : HostFile) (off n : Nat) : HostFile :=
  { len := f.len, byte := fun i => if off ≤ i ∧ i < off + n then 0 else f.byte i }

/-- the fallback of `call_fallocate` when punching fails: write `n` zero bytes -/
def zeroWrite (f : HostFile) (off n : Nat) : HostFile := f.write off (List.replicate n 0)

/-- `fsync` -/
def sync (f : HostFile) : HostFile := f

/-- the whole content -/
def bytes (f : HostFile) : List UInt8 := (List.range f.len).map f.byte

end HostFile
end Qv.Spec
