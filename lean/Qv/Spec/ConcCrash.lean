/-
  Crash states of a CONCURRENT request log, and the reading of it that the crash driver explores.

  A request has an issue time and a completion time on one global clock. The backend contract (the one the three
  backends of src/*_io.rs give: fsync of the whole file): at a crash at time `t`
    * a write can only be on the disk if it had been issued,
    * a write is certainly on the disk if it had COMPLETED before the ISSUE of an fsync that has itself completed.
  (Which of the remaining writes are there is free; tearing is handled by the driver, not here.)

  The harness (`seq::conc_crash_lines`) hands the driver the log ordered with writes at their completion time and
  fsyncs at their issue time; the driver then treats it like a sequential log: at a prefix, everything before the last
  fsync is there, every later write is free. `SeqPossible` is that reading, stated on times instead of list positions.

  Mathlib-free.
-/
namespace Qv.Spec.ConcCrash

structure Wr where
  id : Nat
  issue : Nat
  done : Nat
  deriving DecidableEq, Repr

structure Sy where
  issue : Nat
  done : Nat
  deriving DecidableEq, Repr

structure Log where
  ws : List Wr
  ss : List Sy

/-- completion follows issue -/
def WF (l : Log) : Prop := (∀ w ∈ l.ws, w.issue < w.done) ∧ (∀ s ∈ l.ss, s.issue < s.done)

/-- `A` (the set of writes on the disk) is a possible outcome of a crash of the concurrent run at time `t` -/
def ConcPossible (l : Log) (t : Nat) (A : Wr → Prop) : Prop :=
  (∀ w ∈ l.ws, A w → w.issue < t) ∧
  (∀ w ∈ l.ws, (∃ s ∈ l.ss, w.done < s.issue ∧ s.done < t) → A w)

/-- the driver's reading: writes keyed by completion, fsyncs keyed by issue and effective at once -/
def SeqPossible (l : Log) (t : Nat) (A : Wr → Prop) : Prop :=
  (∀ w ∈ l.ws, A w → w.done < t) ∧
  (∀ w ∈ l.ws, (∃ s ∈ l.ss, w.done < s.issue ∧ s.issue < t) → A w)

/-- the naive reading of the log in issue order: an fsync covers whatever was issued before it -/
def NaivePossible (l : Log) (t : Nat) (A : Wr → Prop) : Prop :=
  (∀ w ∈ l.ws, A w → w.issue < t) ∧
  (∀ w ∈ l.ws, (∃ s ∈ l.ss, w.issue < s.issue ∧ s.issue < t) → A w)

end Qv.Spec.ConcCrash
