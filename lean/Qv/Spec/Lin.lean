/-
Per-block linearizability (C06): a block (512-byte sector) is a register.
A history is a list of events with invocation and response times; `w v` writes
`v`, `r v` returned `v`, `d` is a discard covering the block (it zeroes the
block if the cluster had its own allocation, else it does nothing: both
outcomes are admitted).  The history is linearizable iff the events can be put
in a total order that respects completion-before-start and in which every read
returns the current value.
-/
namespace Qv.Spec.Lin

inductive Kind where
  | w | r | d
  deriving DecidableEq, Repr, Inhabited

structure Ev where
  kind : Kind
  val : Nat
  inv : Nat
  resp : Nat
  deriving DecidableEq, Repr, Inhabited

/-- `a` completed before `b` started -/
def before (a b : Ev) : Bool := a.resp < b.inv

/-- can `e` be linearized next when `rest` are the events not yet placed? (no
    unplaced event completed before `e` started) -/
def minimal (e : Ev) (rest : List Ev) : Bool := rest.all (fun x => !before x e)

/-- remove the first occurrence -/
def remove1 (e : Ev) : List Ev → List Ev
  | [] => []
  | x :: xs => if x = e then xs else x :: remove1 e xs

/-- the values the register may hold after applying `e` at value `cur`
    (`none` = `e` cannot be placed here) -/
def apply (cur : Nat) (e : Ev) : List Nat :=
  match e.kind with
  | .w => [e.val]
  | .r => if e.val = cur then [cur] else []
  | .d => [0, cur]

/-- depth-first search for a linearization -/
def search : Nat → Nat → List Ev → Bool
  | 0, _, evs => evs.isEmpty
  | fuel + 1, cur, evs =>
    if evs.isEmpty then true else
    evs.any (fun e =>
      minimal e (remove1 e evs) &&
      (apply cur e).any (fun c => search fuel c (remove1 e evs)))

/-- is the history of one block linearizable from initial value `init`? -/
def linearizable (init : Nat) (evs : List Ev) : Bool := search evs.length init evs

/-- a witness: an ordering of the events with the register value after each -/
def validOrder (init : Nat) : List Ev → List Ev → Bool
  | [], rest => rest.isEmpty
  | e :: es, rest =>
    rest.contains e && minimal e (remove1 e rest) &&
    (apply init e).any (fun c => validOrder c es (remove1 e rest))

end Qv.Spec.Lin
