/-
An abstract write-back cache, for the retry part of C17: what a flush that
fails half-way must leave behind so that repeating it loses nothing.

Dirty items are (location, value) pairs; a flush attempt walks the dirty list
and writes each item; `fails pos` is the fault oracle of the attempt.  In
`flushOnce` (the repaired behaviour of `flush_cache_entries` /
`flush_meta_generic`) an item whose write fails STAYS dirty; in
`flushOnceBuggy` (the original behaviour: dirty flag cleared / dirty-block
index popped before the write) it is dropped from the dirty list first.
-/
namespace Qv.Spec.FlushRetry

structure Cache where
  items : List (Nat × Nat)      -- (location, value) dirty entries
  deriving Repr, DecidableEq

abbrev Disk := Nat → Nat

def put (d : Disk) (loc v : Nat) : Disk := fun l => if l = loc then v else d l

/-- what the disk should hold once every dirty item is written: the dirty value
    where there is one, the old content elsewhere -/
def target (items : List (Nat × Nat)) (d : Disk) : Disk :=
  fun l => match items.lookup l with
    | some v => v
    | none => d l

/-- dirty locations are distinct (one cache entry per slice) -/
def Distinct (items : List (Nat × Nat)) : Prop := (items.map (·.1)).Nodup

/-- one pass over the dirty list starting at position `pos`:
    (items still dirty, disk, no write failed) -/
def flushItems (fails : Nat → Bool) : Nat → List (Nat × Nat) → Disk → List (Nat × Nat) × Disk × Bool
  | _, [], d => ([], d, true)
  | pos, (l, v) :: rest, d =>
    if fails pos then
      let r := flushItems fails (pos + 1) rest d
      ((l, v) :: r.1, r.2.1, false)
    else
      flushItems fails (pos + 1) rest (put d l v)

/-- a flush attempt; `ok` iff no write failed -/
def flushOnce (fails : Nat → Bool) (s : Cache × Disk) : (Cache × Disk) × Bool :=
  let r := flushItems fails 0 s.1.items s.2
  (({ items := r.1 }, r.2.1), r.2.2)

/-- the original behaviour: the item leaves the dirty list before its write is attempted -/
def flushItemsBuggy (fails : Nat → Bool) : Nat → List (Nat × Nat) → Disk → Disk × Bool
  | _, [], d => (d, true)
  | pos, (l, v) :: rest, d =>
    if fails pos then
      let r := flushItemsBuggy fails (pos + 1) rest d
      (r.1, false)
    else
      flushItemsBuggy fails (pos + 1) rest (put d l v)

def flushOnceBuggy (fails : Nat → Bool) (s : Cache × Disk) : (Cache × Disk) × Bool :=
  let r := flushItemsBuggy fails 0 s.1.items s.2
  (({ items := [] }, r.1), r.2)

/-- `n` attempts, numbered from `a`; `fails a pos`: attempt × position -/
def retry (fails : Nat → Nat → Bool) : Nat → Nat → Cache × Disk → Cache × Disk
  | 0, _, s => s
  | n + 1, a, s => retry fails n (a + 1) (flushOnce (fails a) s).1

def retryBuggy (fails : Nat → Nat → Bool) : Nat → Nat → Cache × Disk → Cache × Disk
  | 0, _, s => s
  | n + 1, a, s => retryBuggy fails n (a + 1) (flushOnceBuggy (fails a) s).1

/-! ### facts about one pass -/

theorem put_same (d : Disk) (l v : Nat) : put d l v l = v := by simp [put]
theorem put_other (d : Disk) (l v l' : Nat) (h : l' ≠ l) : put d l v l' = d l' := by simp [put, h]

theorem target_nil (d : Disk) : target [] d = d := rfl

theorem target_cons (l v : Nat) (rest : List (Nat × Nat)) (d : Disk) (x : Nat) :
    target ((l, v) :: rest) d x = if x = l then v else target rest d x := by
  unfold target
  by_cases h : x = l
  · subst h; simp [List.lookup]
  · have : (x == l) = false := by simpa using h
    simp [List.lookup, this, h]

theorem target_not_mem (items : List (Nat × Nat)) (d : Disk) (x : Nat) (h : x ∉ items.map (·.1)) :
    target items d x = d x := by
  induction items with
  | nil => rfl
  | cons a rest ih =>
    obtain ⟨l, v⟩ := a
    simp only [List.map_cons, List.mem_cons, not_or] at h
    rw [target_cons, if_neg h.1, ih h.2]

theorem target_mem (items : List (Nat × Nat)) (d : Disk) (l v : Nat) (hd : Distinct items)
    (h : (l, v) ∈ items) : target items d l = v := by
  induction items with
  | nil => cases h
  | cons a rest ih =>
    obtain ⟨l0, v0⟩ := a
    unfold Distinct at hd
    simp only [List.map_cons, List.nodup_cons] at hd
    rw [target_cons]
    rcases List.mem_cons.1 h with e | e
    · cases e; rw [if_pos rfl]
    · have : l ≠ l0 := by
        intro hl; subst hl
        exact hd.1 (List.mem_map.2 ⟨(l, v), e, rfl⟩)
      rw [if_neg this]; exact ih hd.2 e

theorem target_put_other (items : List (Nat × Nat)) (d : Disk) (l v x : Nat) (h : x ≠ l) :
    target items (put d l v) x = target items d x := by
  unfold target
  split
  · rfl
  · exact put_other d l v x h

/-- the still-dirty items are a sublist of the dirty items -/
theorem flushItems_sublist (fails : Nat → Bool) (pos : Nat) (items : List (Nat × Nat)) (d : Disk) :
    (flushItems fails pos items d).1.Sublist items := by
  induction items generalizing pos d with
  | nil => exact List.Sublist.refl _
  | cons a rest ih =>
    obtain ⟨l, v⟩ := a
    unfold flushItems
    split
    · exact List.Sublist.cons_cons _ (ih _ _)
    · exact List.Sublist.cons _ (ih _ _)

theorem flushItems_distinct (fails : Nat → Bool) (pos : Nat) (items : List (Nat × Nat)) (d : Disk)
    (h : Distinct items) : Distinct (flushItems fails pos items d).1 :=
  List.Nodup.sublist ((flushItems_sublist fails pos items d).map _) h

/-- a pass only writes dirty locations -/
theorem flushItems_untouched (fails : Nat → Bool) (pos : Nat) (items : List (Nat × Nat)) (d : Disk) (x : Nat)
    (h : x ∉ items.map (·.1)) : (flushItems fails pos items d).2.1 x = d x := by
  induction items generalizing pos d with
  | nil => rfl
  | cons a rest ih =>
    obtain ⟨l, v⟩ := a
    simp only [List.map_cons, List.mem_cons, not_or] at h
    unfold flushItems
    split
    · exact ih _ _ h.2
    · rw [ih _ _ h.2, put_other _ _ _ _ h.1]

/-- `ok` means every write went through: nothing is left dirty -/
theorem flushItems_ok_nil (fails : Nat → Bool) (pos : Nat) (items : List (Nat × Nat)) (d : Disk)
    (h : (flushItems fails pos items d).2.2 = true) : (flushItems fails pos items d).1 = [] := by
  induction items generalizing pos d with
  | nil => rfl
  | cons a rest ih =>
    obtain ⟨l, v⟩ := a
    unfold flushItems at h ⊢
    split
    · rename_i hf; rw [if_pos hf] at h; cases h
    · rename_i hf; rw [if_neg hf] at h; exact ih _ _ h

/-- a pass without faults writes everything -/
theorem flushItems_nofail (fails : Nat → Bool) (pos : Nat) (items : List (Nat × Nat)) (d : Disk)
    (h : ∀ p, fails p = false) :
    (flushItems fails pos items d).1 = [] ∧ (flushItems fails pos items d).2.2 = true := by
  induction items generalizing pos d with
  | nil => exact ⟨rfl, rfl⟩
  | cons a rest ih =>
    obtain ⟨l, v⟩ := a
    unfold flushItems
    rw [if_neg (by rw [h pos]; exact Bool.false_ne_true)]
    exact ih _ _

/-- **the retry invariant**: disk overlaid with what is still dirty = the target.
    Whatever fails, a pass does not change it (distinct locations). -/
theorem flushItems_target (fails : Nat → Bool) (pos : Nat) (items : List (Nat × Nat)) (d : Disk)
    (hd : Distinct items) (x : Nat) :
    target (flushItems fails pos items d).1 (flushItems fails pos items d).2.1 x = target items d x := by
  induction items generalizing pos d with
  | nil => rfl
  | cons a rest ih =>
    obtain ⟨l, v⟩ := a
    unfold Distinct at hd
    simp only [List.map_cons, List.nodup_cons] at hd
    unfold flushItems
    split
    · dsimp only
      rw [target_cons, target_cons, ih _ _ hd.2]
    · rw [ih _ _ hd.2, target_cons]
      by_cases hx : x = l
      · subst hx
        rw [if_pos rfl, target_not_mem _ _ _ hd.1, put_same]
      · rw [if_neg hx, target_put_other _ _ _ _ _ hx]

/-- an item that stays dirty was not written: the disk is unchanged at its location -/
theorem flushItems_kept_unchanged (fails : Nat → Bool) (pos : Nat) (items : List (Nat × Nat)) (d : Disk)
    (hd : Distinct items) (l v : Nat) (h : (l, v) ∈ (flushItems fails pos items d).1) :
    (flushItems fails pos items d).2.1 l = d l := by
  induction items generalizing pos d with
  | nil => cases h
  | cons a rest ih =>
    obtain ⟨l0, v0⟩ := a
    unfold Distinct at hd
    simp only [List.map_cons, List.nodup_cons] at hd
    unfold flushItems at h ⊢
    split
    · rename_i hf
      rw [if_pos hf] at h
      dsimp only at h ⊢
      rcases List.mem_cons.1 h with e | e
      · cases e
        exact flushItems_untouched _ _ _ _ _ hd.1
      · exact ih _ _ hd.2 e
    · rename_i hf
      rw [if_neg hf] at h
      have hne : l ≠ l0 := by
        intro hl; subst hl
        exact hd.1 (List.mem_map.2 ⟨(l, v), (flushItems_sublist _ _ _ _).subset h, rfl⟩)
      rw [ih _ _ hd.2 h, put_other _ _ _ _ hne]

/-! ### one attempt -/

/-- `ok` ⇒ the cache is clean and the disk holds every previously dirty value -/
theorem flushOnce_ok_clean (fails : Nat → Bool) (c : Cache) (d : Disk) (hd : Distinct c.items)
    (hok : (flushOnce fails (c, d)).2 = true) :
    (flushOnce fails (c, d)).1.1.items = [] ∧
    (∀ l v, (l, v) ∈ c.items → (flushOnce fails (c, d)).1.2 l = v) ∧
    (∀ l, l ∉ c.items.map (·.1) → (flushOnce fails (c, d)).1.2 l = d l) := by
  have hnil := flushItems_ok_nil fails 0 c.items d hok
  refine ⟨hnil, ?_, fun l hl => flushItems_untouched fails 0 c.items d l hl⟩
  intro l v hm
  have := flushItems_target fails 0 c.items d hd l
  rw [hnil, target_nil, target_mem _ _ _ _ hd hm] at this
  exact this

/-- after any attempt, failed or not: an item that is still dirty was not written (the disk
    is unchanged at its location), every item is still dirty or on disk, and the dirty
    locations stay distinct -/
theorem flushOnce_keeps_failed (fails : Nat → Bool) (c : Cache) (d : Disk) (hd : Distinct c.items) :
    (∀ l v, (l, v) ∈ (flushOnce fails (c, d)).1.1.items →
        (l, v) ∈ c.items ∧ (flushOnce fails (c, d)).1.2 l = d l) ∧
    (∀ l v, (l, v) ∈ c.items →
        (l, v) ∈ (flushOnce fails (c, d)).1.1.items ∨ (flushOnce fails (c, d)).1.2 l = v) ∧
    Distinct (flushOnce fails (c, d)).1.1.items := by
  refine ⟨fun l v hm => ⟨(flushItems_sublist fails 0 c.items d).subset hm,
      flushItems_kept_unchanged fails 0 c.items d hd l v hm⟩, ?_, flushItems_distinct fails 0 c.items d hd⟩
  intro l v hm
  have ht := flushItems_target fails 0 c.items d hd l
  rw [target_mem _ _ _ _ hd hm] at ht
  by_cases hk : l ∈ (flushItems fails 0 c.items d).1.map (·.1)
  · left
    obtain ⟨⟨l', v'⟩, hm', rfl⟩ := List.mem_map.1 hk
    have hd' := flushItems_distinct fails 0 c.items d hd
    have : v' = v := by
      rw [target_mem _ _ _ _ hd' hm'] at ht; exact ht
    subst this
    exact hm'
  · right
    rw [target_not_mem _ _ _ hk] at ht
    exact ht

/-- a failed write is reported -/
theorem flushOnce_reports (fails : Nat → Bool) (c : Cache) (d : Disk)
    (h : (flushOnce fails (c, d)).1.1.items ≠ []) : (flushOnce fails (c, d)).2 = false := by
  cases hok : (flushOnce fails (c, d)).2 with
  | false => rfl
  | true => exact absurd (flushItems_ok_nil fails 0 c.items d hok) h

/-! ### retrying -/

/-- the invariant over any number of attempts with any faults -/
theorem retry_invariant (fails : Nat → Nat → Bool) (n a : Nat) (c : Cache) (d : Disk) (hd : Distinct c.items) :
    Distinct (retry fails n a (c, d)).1.items ∧
    ∀ l, target (retry fails n a (c, d)).1.items (retry fails n a (c, d)).2 l = target c.items d l := by
  induction n generalizing a c d with
  | zero => exact ⟨hd, fun _ => rfl⟩
  | succ n ih =>
    unfold retry
    have hd' := flushItems_distinct (fails a) 0 c.items d hd
    obtain ⟨i1, i2⟩ := ih (a + 1) (flushOnce (fails a) (c, d)).1.1 (flushOnce (fails a) (c, d)).1.2 hd'
    exact ⟨i1, fun l => (i2 l).trans (flushItems_target (fails a) 0 c.items d hd l)⟩

theorem retry_clean (fails : Nat → Nat → Bool) (n a : Nat) (d : Disk) :
    retry fails n a ({ items := [] }, d) = ({ items := [] }, d) := by
  induction n generalizing a with
  | zero => rfl
  | succ n ih => unfold retry; exact ih (a + 1)

theorem retry_add (fails : Nat → Nat → Bool) (m n a : Nat) (s : Cache × Disk) :
    retry fails (m + n) a s = retry fails n (a + m) (retry fails m a s) := by
  induction m generalizing a s with
  | zero => simp [retry]
  | succ m ih =>
    have e1 : retry fails (m + 1 + n) a s = retry fails (m + n) (a + 1) (flushOnce (fails a) s).1 := by
      rw [show m + 1 + n = (m + n) + 1 by omega]; rfl
    have e2 : retry fails (m + 1) a s = retry fails m (a + 1) (flushOnce (fails a) s).1 := rfl
    rw [e1, e2, ih, show a + 1 + m = a + (m + 1) by omega]

/-- **retry converges**: if from attempt `a0` on nothing fails, then — whatever failed
    before — attempt `a0` returns `ok`, after it (and after any number of further
    attempts) the cache is clean, and the disk is the initial disk overlaid with ALL
    initially dirty items: nothing acknowledged is lost -/
theorem retry_converges (fails : Nat → Nat → Bool) (a0 : Nat)
    (hgood : ∀ a pos, a0 ≤ a → fails a pos = false)
    (c : Cache) (d : Disk) (hd : Distinct c.items) (k : Nat) :
    (flushOnce (fails a0) (retry fails a0 0 (c, d))).2 = true ∧
    (retry fails (a0 + 1 + k) 0 (c, d)).1.items = [] ∧
    (∀ l, (retry fails (a0 + 1 + k) 0 (c, d)).2 l = target c.items d l) ∧
    (∀ l v, (l, v) ∈ c.items → (retry fails (a0 + 1 + k) 0 (c, d)).2 l = v) := by
  obtain ⟨i1, i2⟩ := retry_invariant fails a0 0 c d hd
  have hnf := flushItems_nofail (fails a0) 0 (retry fails a0 0 (c, d)).1.items (retry fails a0 0 (c, d)).2
    (fun p => hgood a0 p (Nat.le_refl _))
  have hstep : retry fails (a0 + 1) 0 (c, d) = (flushOnce (fails a0) (retry fails a0 0 (c, d))).1 := by
    rw [retry_add]; simp [retry]
  have hitems : (retry fails (a0 + 1) 0 (c, d)).1.items = [] := by rw [hstep]; exact hnf.1
  have hdisk : ∀ l, (retry fails (a0 + 1) 0 (c, d)).2 l = target c.items d l := by
    intro l
    have := flushItems_target (fails a0) 0 (retry fails a0 0 (c, d)).1.items (retry fails a0 0 (c, d)).2 i1 l
    rw [hnf.1, target_nil, i2 l] at this
    rw [hstep]; exact this
  have hfix : retry fails (a0 + 1 + k) 0 (c, d) = retry fails (a0 + 1) 0 (c, d) := by
    rw [retry_add]
    generalize hs : retry fails (a0 + 1) 0 (c, d) = s at hitems
    obtain ⟨⟨it⟩, dk⟩ := s
    dsimp only at hitems
    subst hitems
    exact retry_clean _ _ _ _
  rw [hfix]
  exact ⟨hnf.2, hitems, hdisk, fun l v hm => by rw [hdisk l, target_mem _ _ _ _ hd hm]⟩

/-! ### the negative witness -/

/-- one dirty item (location 7, value 42) on an all-zero disk; the first attempt fails -/
def lossCache : Cache := { items := [(7, 42)] }
def lossDisk : Disk := fun _ => 0
def lossFaults : Nat → Nat → Bool := fun a _ => a == 0

/-- **clear-before-write loses data**: with the original order (dirty mark removed before
    the write) the first attempt fails, the retry reports `ok` on a clean cache — and the
    value never reached the disk -/
theorem clear_before_write_loses :
    (flushOnceBuggy (lossFaults 0) (lossCache, lossDisk)).2 = false ∧
    (flushOnceBuggy (lossFaults 1) (flushOnceBuggy (lossFaults 0) (lossCache, lossDisk)).1).2 = true ∧
    (retryBuggy lossFaults 2 0 (lossCache, lossDisk)).1.items = [] ∧
    (retryBuggy lossFaults 2 0 (lossCache, lossDisk)).2 7 = 0 ∧
    target lossCache.items lossDisk 7 = 42 := by
  refine ⟨rfl, rfl, rfl, rfl, rfl⟩

/-- the repaired order on the same input: the retry writes the value -/
theorem keep_until_written_recovers :
    (flushOnce (lossFaults 0) (lossCache, lossDisk)).2 = false ∧
    (retry lossFaults 2 0 (lossCache, lossDisk)).1.items = [] ∧
    (retry lossFaults 2 0 (lossCache, lossDisk)).2 7 = 42 := by
  refine ⟨rfl, rfl, rfl⟩

end Qv.Spec.FlushRetry
