import Std.Data.HashMap
/-
An independent reading of a qcow2 file, straight from the format specification
(docs/interop/qcow2.txt): header fields, L1/L2 walk, refcount lookup, reference
counting of every host cluster, and the structural validity predicate of C03 /
the crash-safety predicate of C04.  Nothing here is shared with the model of the
implementation (`Qv.Model`, `Qv.Codec`): it is the oracle that judges the files
the real code produces.
-/
namespace Qv.Spec

@[inline] def byteAt (b : ByteArray) (i : Nat) : Nat := if i < b.size then (b.get! i).toNat else 0

/-- big-endian unsigned integer of `n` bytes at `off` (bytes beyond EOF read 0) -/
def be (b : ByteArray) (off n : Nat) : Nat :=
  match n with
  | 8 => ((((((byteAt b off * 256 + byteAt b (off+1)) * 256 + byteAt b (off+2)) * 256 + byteAt b (off+3)) * 256
            + byteAt b (off+4)) * 256 + byteAt b (off+5)) * 256 + byteAt b (off+6)) * 256 + byteAt b (off+7)
  | 4 => ((byteAt b off * 256 + byteAt b (off+1)) * 256 + byteAt b (off+2)) * 256 + byteAt b (off+3)
  | 2 => byteAt b off * 256 + byteAt b (off+1)
  | 1 => byteAt b off
  | _ => (List.range n).foldl (fun acc k => acc * 256 + byteAt b (off + k)) 0

structure Hdr where
  version : Nat
  backingOff : Nat
  backingSize : Nat
  cb : Nat
  size : Nat
  crypt : Nat
  l1Size : Nat
  l1Off : Nat
  rtOff : Nat
  rtClusters : Nat
  nbSnap : Nat
  incompat : Nat
  ro : Nat            -- refcount_order (4 for version 2)
  hdrLen : Nat
  compression : Nat
  deriving Repr, Inhabited

/-- header fields at their specified byte offsets; refuses what the
    specification (within the supported feature set) does not allow -/
def parseHdr (b : ByteArray) : Except String Hdr := do
  if b.size < 72 then throw "short-header"
  if be b 0 4 ≠ 0x514649fb then throw "bad-magic"
  let version := be b 4 4
  if version ≠ 2 ∧ version ≠ 3 then throw "bad-version"
  if version = 3 ∧ b.size < 104 then throw "short-header"
  let cb := be b 20 4
  if cb < 9 ∨ cb > 21 then throw "bad-cluster-bits"
  let h : Hdr := {
    version := version, backingOff := be b 8 8, backingSize := be b 16 4, cb := cb,
    size := be b 24 8, crypt := be b 32 4, l1Size := be b 36 4, l1Off := be b 40 8,
    rtOff := be b 48 8, rtClusters := be b 56 4, nbSnap := be b 60 4,
    incompat := if version = 3 then be b 72 8 else 0,
    ro := if version = 3 then be b 96 4 else 4,
    hdrLen := if version = 3 then be b 100 4 else 72,
    compression := if version = 3 ∧ be b 100 4 > 104 then be b 104 1 else 0 }
  if h.crypt ≠ 0 then throw "encrypted"
  if h.incompat ≠ 0 then throw "incompatible-features"
  if h.ro > 6 then throw "bad-refcount-order"
  if h.compression ≠ 0 then throw "compression-type"
  if h.l1Off % 2^cb ≠ 0 then throw "l1-unaligned"
  if h.rtOff % 2^cb ≠ 0 then throw "reftable-unaligned"
  pure h

structure Img where
  b : ByteArray
  h : Hdr

namespace Img
variable (m : Img)

def cs : Nat := 1 <<< m.h.cb
def word (off : Nat) : Nat := be m.b off 8
def l1Entry (i : Nat) : Nat := if i < m.h.l1Size then m.word (m.h.l1Off + i * 8) else 0
def l2Entries : Nat := m.cs / 8
def guestClusters : Nat := (m.h.size + m.cs - 1) / m.cs

/-- L2 entry of guest cluster `g` (0 when its L2 table does not exist) -/
def l2Entry (g : Nat) : Nat :=
  let l1e := m.l1Entry (g / m.l2Entries)
  let l2off := l1e % 2^56 / 512 * 512
  if l2off = 0 then 0 else m.word (l2off + (g % m.l2Entries) * 8)

def rtEntries : Nat := m.h.rtClusters * m.cs / 8
def rbEntries : Nat := (m.cs * 8) >>> m.h.ro

/-- refcount field `i` of the refcount block at byte offset `rbOff`:
    big-endian for widths ≥ 8, LSB-first inside a byte for sub-byte widths -/
def rcField (rbOff i : Nat) : Nat :=
  let bits := 1 <<< m.h.ro
  if bits ≥ 8 then be m.b (rbOff + i * (bits / 8)) (bits / 8)
  else
    let per := 8 / bits
    let byte := be m.b (rbOff + i / per) 1
    (byte >>> ((i % per) * bits)) % (1 <<< bits)

/-- stored refcount of host cluster `c` (0 when no refcount block covers it) -/
def refcount (c : Nat) : Nat :=
  let i := c / m.rbEntries
  if i ≥ m.rtEntries then 0 else
  let rbOff := m.word (m.h.rtOff + i * 8) / 512 * 512
  if rbOff = 0 then 0 else m.rcField rbOff (c % m.rbEntries)

end Img

inductive RefKind where
  | metadata | stdData | compressed
  deriving DecidableEq, Repr

structure Refs where
  cnt : Std.HashMap Nat Nat := {}
  kinds : Std.HashMap Nat RefKind := {}
  errs : List String := []

def Refs.add (r : Refs) (c : Nat) (k : RefKind) : Refs :=
  let old := r.cnt.getD c 0
  let errs := match r.kinds.get? c with
    | some k0 => if k0 = .compressed ∧ k = .compressed then r.errs
                 else s!"double-ref cluster={c}" :: r.errs
    | none => r.errs
  { cnt := r.cnt.insert c (old + 1), kinds := r.kinds.insert c k, errs := errs }

def Refs.err (r : Refs) (e : String) : Refs := { r with errs := e :: r.errs }

/-- count every reference the specification defines: header, L1 table clusters,
    reftable clusters, refblocks, L2 tables, standard and compressed data; collect
    structural errors on the way -/
def collectRefs (m : Img) : Refs := Id.run do
  let cs := m.cs
  let mut r : Refs := {}
  r := r.add 0 .metadata
  -- L1 table and reftable clusters
  for k in [0:(m.h.l1Size * 8 + cs - 1) / cs] do
    r := r.add (m.h.l1Off / cs + k) .metadata
  for k in [0:m.h.rtClusters] do
    r := r.add (m.h.rtOff / cs + k) .metadata
  -- refcount blocks
  for i in [0:m.rtEntries] do
    let e := m.word (m.h.rtOff + i * 8)
    if e ≠ 0 then
      if e % 512 ≠ 0 then r := r.err s!"reserved reftable[{i}]"
      let off := e / 512 * 512
      if off % cs ≠ 0 then r := r.err s!"unaligned reftable[{i}]"
      else if off ≠ 0 then r := r.add (off / cs) .metadata
  -- L2 tables and data
  for i in [0:m.h.l1Size] do
    let e := m.l1Entry i
    if e ≠ 0 then
      let copied := e / 2^63 % 2 = 1
      if e % 512 ≠ 0 ∨ (e / 2^56) % 128 ≠ 0 then r := r.err s!"reserved l1[{i}]"
      let off := e % 2^56 / 512 * 512
      if off % cs ≠ 0 then r := r.err s!"unaligned l1[{i}]"
      else if off ≠ 0 then
        r := r.add (off / cs) .metadata
        if ¬ copied then r := r.err s!"nocopied l1[{i}]"
        for j in [0:m.l2Entries] do
          let g := i * m.l2Entries + j
          let l2e := m.word (off + j * 8)
          if l2e ≠ 0 then
            if g ≥ m.guestClusters then r := r.err s!"beyond-vsize guest={g}"
            let compressed := l2e / 2^62 % 2 = 1
            if compressed then
              if l2e / 2^63 % 2 = 1 then r := r.err s!"reserved l2 guest={g}"
              let x := 62 - (m.h.cb - 8)
              let coff := l2e % 2^x
              let sectors := (l2e % 2^62) / 2^x
              if coff ≥ 2^56 then r := r.err s!"reserved l2 guest={g}"
              let last := coff / 512 * 512 + (sectors + 1) * 512 - 1
              for c in [coff / cs : last / cs + 1] do
                r := r.add c .compressed
            else
              let hoff := l2e % 2^56 / 512 * 512
              if (l2e % 512) / 2 ≠ 0 ∨ (l2e / 2^56) % 64 ≠ 0 then r := r.err s!"reserved l2 guest={g}"
              if l2e % 2 = 1 ∧ m.h.version = 2 then r := r.err s!"zero-flag-in-v2 guest={g}"
              if hoff % cs ≠ 0 then r := r.err s!"unaligned l2 guest={g}"
              else if hoff ≠ 0 then
                r := r.add (hoff / cs) .stdData
                if l2e / 2^63 % 2 = 0 then r := r.err s!"nocopied l2 guest={g}"
              else if l2e / 2^63 % 2 = 1 then r := r.err s!"copied-without-offset guest={g}"
  return r

structure Verdict where
  structural : List String      -- alignment / reserved bits / flags / double references
  under : List String           -- refcount lower than references
  leaks : List String           -- refcount higher than references
  deriving Repr

def judge (m : Img) : Verdict := Id.run do
  let r := collectRefs m
  let mut under : List String := []
  let mut leaks : List String := []
  -- under-count: only referenced clusters can be under-counted (a garbage pointer may
  -- name an absurdly large cluster number: never iterate up to it)
  let refd := (r.cnt.fold (fun acc c n => acc.push (c, n)) #[]).qsort (fun a b => a.1 < b.1)
  for (c, refs) in refd do
    let rc := m.refcount c
    if rc < refs then under := s!"undercount cluster={c} rc={rc} refs={refs}" :: under
  -- leaks: clusters inside the file (plus a margin covered by existing refblocks)
  let fileCl := (m.b.size + m.cs - 1) / m.cs
  let covered := (List.range m.rtEntries).foldl (fun acc i =>
    if m.word (m.h.rtOff + i * 8) ≠ 0 then max acc ((i + 1) * m.rbEntries) else acc) 0
  for c in [0:max fileCl (min covered (fileCl + 64))] do
    let refs := r.cnt.getD c 0
    let rc := m.refcount c
    if rc > refs then leaks := s!"leak cluster={c} rc={rc} refs={refs}" :: leaks
  -- backing file name: inside the first cluster, after the header, at most 1023 bytes
  let mut structural := r.errs.reverse
  if m.h.backingOff ≠ 0 then
    if m.h.backingSize > 1023 then structural := structural ++ ["backing-name-too-long"]
    if m.h.backingOff + m.h.backingSize > m.cs then structural := structural ++ ["backing-name-outside-first-cluster"]
    if m.h.backingOff < m.h.hdrLen then structural := structural ++ ["backing-name-inside-header"]
  return { structural := structural, under := under.reverse, leaks := leaks.reverse }

/-- C03: structurally valid with exact refcounts -/
def Verdict.valid (v : Verdict) : Bool := v.structural.isEmpty && v.under.isEmpty && v.leaks.isEmpty
/-- C04: crash-safe — leaks are the only permitted damage -/
def Verdict.crashSafe (v : Verdict) : Bool := v.structural.isEmpty && v.under.isEmpty

def Verdict.text (v : Verdict) : String :=
  if v.valid then "ok" else
  let first (l : List String) := match l with | [] => "" | x :: _ => x
  let parts := (if v.structural.isEmpty then [] else [s!"structural({v.structural.length}): {first v.structural}"]) ++
               (if v.under.isEmpty then [] else [s!"under({v.under.length}): {first v.under}"]) ++
               (if v.leaks.isEmpty then [] else [s!"leaks({v.leaks.length}): {first v.leaks}"])
  let leakIds := v.leaks.take 64 |>.map (fun l => ((l.splitOn " ").getD 1 "").drop 8 |>.toString)
  "fail " ++ "; ".intercalate parts ++ (if v.leaks.isEmpty then "" else " leaked=" ++ ",".intercalate leakIds)

/-- one 512-byte sector as a token: `some w` if all 64 little-endian words are
    equal (0 = zeros), `none` if mixed; beyond EOF reads as zeros -/
def sectorTok (b : ByteArray) (off : Nat) : Option Nat :=
  -- little-endian first word
  let first := (List.range 8).foldr (fun j acc => acc * 256 + byteAt b (off + j)) 0
  -- every byte equals the byte 8 positions before it
  let rec go (i : Nat) (fuel : Nat) : Bool :=
    match fuel with
    | 0 => true
    | fuel + 1 => if byteAt b (off + i) = byteAt b (off + i - 8) then go (i + 1) fuel else false
  if go 8 504 then some first else none

/-- guest sector `s` read from the file alone, per the specification; `back`
    gives the backing chain's content; compressed clusters are reported as
    `none` here (their plaintext is supplied by the case's oracle table) -/
def guestSector (m : Img) (back : Nat → Nat) (s : Nat) : Option Nat :=
  let spc := m.cs / 512
  let g := s / spc
  let e := m.l2Entry g
  if e / 2^62 % 2 = 1 then none
  else if e % 2 = 1 then some 0
  else
    let hoff := e % 2^56 / 512 * 512
    if hoff = 0 then some (back s)
    else sectorTok m.b (hoff + (s % spc) * 512)

/-- what the specification says about guest cluster `g`, in the vocabulary of
    `Qcow2Dev::get_mapping`: (class, host offset or guest offset for `back`,
    compressed byte length upper bound, COPIED flag) -/
def specMapping (m : Img) (g : Nat) : String × Nat × Nat × Bool :=
  let e := m.l2Entry g
  let hasBack := m.h.backingOff ≠ 0
  let copied := e / 2^63 % 2 = 1
  if e / 2^62 % 2 = 1 then
    -- compressed cluster descriptor: x = 62 - (cluster_bits - 8)
    let x := 62 - (m.h.cb - 8)
    let off := e % 2^x
    let nsect := e / 2^x % 2^(m.h.cb - 8)
    ("comp", off, (nsect + 1) * 512 - off % 512, false)
  else
    let hoff := e % 2^56 / 512 * 512
    if e % 2 = 1 ∧ m.h.version ≥ 3 then ("zero", hoff, 0, hoff ≠ 0 ∧ copied)
    else if hoff = 0 then (if hasBack ∨ copied then ("back", g * m.cs, 0, false) else ("unalloc", 0, 0, false))
    else ("data", hoff, 0, copied)

end Qv.Spec
