import Qv.Spec.Flat
/-
The copy loops of `rqcow2 convert` (src/main.rs: convert_to_qcow2_dev /
copy_to_qcow2, convert_from_qcow2_dev / copy_from_qcow2) over the flat
reference disk, at sector granularity of the data and byte granularity of the
sizes.

raw -> qcow2: the image gets virtual size `padUp size cs` (at least one
cluster); the source is copied in chunks of `chunk` bytes (8 MiB), each chunk
read completely (short reads are continued), its tail padded with zeros up to
the block size `bs`, and written with `write_at` at its offset.
qcow2 -> raw: the device is read in chunks up to its virtual size.
-/
namespace Qv.Spec.Convert
open Qv.Spec

/-- `(size + cs - 1) & !(cs - 1)`, at least one cluster -/
def padUp (size cs : Nat) : Nat := max ((size + cs - 1) / cs * cs) cs

/-- the chunks `(offset, length)` the loop `while off < total { len = min(chunk, total - off); off += len }`
    visits; `fuel` bounds the iterations (`total + 1` is always enough when `chunk > 0`) -/
def chunks (total chunk : Nat) : Nat → Nat → List (Nat × Nat)
  | 0, _ => []
  | fuel + 1, off =>
    if off < total then
      let len := min chunk (total - off)
      if len = 0 then [] else (off, len) :: chunks total chunk fuel (off + len)
    else []

def chunkList (total chunk : Nat) : List (Nat × Nat) := chunks total chunk (total + 1) 0

/-- the loop terminated because the whole range was visited (and not because the
    fuel ran out or a chunk was empty) -/
def chunksComplete (total : Nat) (cs : List (Nat × Nat)) : Bool :=
  (cs.foldl (fun acc c => if acc == c.1 then c.1 + c.2 else total + 1) 0) == total

/-- sector tokens of the source: `data` (one token per 512 bytes; a partial last
    sector is not representable with tokens, so sizes are multiples of 512 here;
    the byte-level padding arithmetic is `padTail`) -/
def copyIn (f : Flat) (data : List Nat) (chunkSecs : Nat) : Flat :=
  let n := data.length
  (chunkList n chunkSecs).foldl (fun acc c => acc.write (c.1 * 512) ((data.drop c.1).take c.2)) f

/-- reading the whole device back in chunks of `chunkSecs` sectors -/
def copyOut (f : Flat) (chunkSecs : Nat) : List Nat :=
  let n := f.vsize / 512
  (chunkList n chunkSecs).flatMap (fun c => f.read (c.1 * 512) c.2)

/-- bytes written for a chunk of `res` source bytes with block size `bs`: `res.div_ceil(bs) * bs` -/
def padTail (res bs : Nat) : Nat := (res + bs - 1) / bs * bs

/-- an empty (all zero, nothing owned) disk of `vsize` bytes -/
def blank (vsize cs : Nat) : Flat := { vsize := vsize, cs := cs, sec := FMap.empty 0, own := FMap.empty false }

end Qv.Spec.Convert
