/-
  The `unsynced` flag protocol of src/dev/cache.rs over the backend contract "an fsync makes durable the requests that had
  COMPLETED when it was issued":

    call_write / call_fallocate   set the flag when the request is issued and (since the repair) again when it completes
    call_fsync                    clears the flag, then issues the fsync
    sync_unsynced()               call_fsync iff the flag is set      (used between the layers of flush_meta)
    fsync_range()                 call_fsync always                   (the public promise of C05)

  `Mark` selects when a write marks the device (the code before / after the repair), `Policy` what the public fsync_range()
  does (the code / the realistic change "skip it when the flag is clear").

  Mathlib-free, executable.
-/
namespace Qv.Spec.SyncCover

inductive Mark | issueOnly | issueAndDone
  deriving DecidableEq, Repr

inductive Policy | always | skipWhenClear
  deriving DecidableEq, Repr

inductive Op
  | wIssue (id : Nat)      -- the request goes to the backend
  | wDone (id : Nat)       -- the backend completes it (and the issuing task sees the completion)
  | sync                   -- call_fsync
  | syncUnsynced           -- sync_unsynced()
  | fsyncRange             -- the public call
  deriving DecidableEq, Repr

structure St where
  flag      : Bool := false
  inflight  : List Nat := []
  completed : List Nat := []
  /-- completed requests some issued fsync covers -/
  covered   : List Nat := []
  deriving Repr

def doSync (s : St) : St := { s with flag := false, covered := s.completed }

def step (m : Mark) (p : Policy) (s : St) : Op → St
  | .wIssue id => { s with flag := true, inflight := id :: s.inflight }
  | .wDone id =>
    if id ∈ s.inflight then
      { s with inflight := s.inflight.erase id, completed := id :: s.completed,
               flag := match m with | .issueOnly => s.flag | .issueAndDone => true }
    else s
  | .sync => doSync s
  | .syncUnsynced => if s.flag then doSync s else s
  | .fsyncRange =>
    match p with
    | .always => doSync s
    | .skipWhenClear => if s.flag then doSync s else s

def run (m : Mark) (p : Policy) (s : St) (ops : List Op) : St := ops.foldl (step m p) s

/-- every completed request is covered by an fsync -/
def AllCovered (s : St) : Prop := ∀ id ∈ s.completed, id ∈ s.covered

instance (s : St) : Decidable (AllCovered s) := by unfold AllCovered; infer_instance

end Qv.Spec.SyncCover
