/-
Lock-order discipline and deadlock freedom (C07).

Tasks run *lock programs*: sequences of `acq` (an async lock acquisition, read
or write mode, of a lock instance that belongs to a class), `rel` and `io`.
A task whose next action is an `acq` that conflicts with a lock another task
holds is *blocked*.  A state in which every unfinished task is blocked is a
deadlock.

Discipline `Disciplined rank`: whenever a task requests lock `a` while holding
lock `h`, either `rank h < rank a`, or the ranks are equal and both `h` and `a`
are read mode.  (`rank` is on lock *instances*, so a class can be split, e.g.
"new cluster holding metadata" vs "new cluster holding data".)

Theorems (Qv/Props/C07.lean): in every state reachable by interleaving
disciplined programs, if some task is blocked then some blocked task is blocked
only by tasks that are not blocked themselves — so there is never a set of tasks
waiting for each other; and a system of disciplined programs never reaches a
deadlock.
-/
namespace Qv.Spec.Lock

inductive Mode where
  | rd | wr
  deriving DecidableEq, Repr, Inhabited

structure Req where
  lock : Nat
  mode : Mode
  deriving DecidableEq, Repr, Inhabited

def conflicts (a b : Mode) : Bool := a == .wr || b == .wr

inductive Act where
  | acq (r : Req)
  | rel (lock : Nat)
  | io
  deriving DecidableEq, Repr, Inhabited

structure Task where
  /-- locks held (acquired by the executed prefix and not released) -/
  held : List Req
  /-- the rest of the program -/
  prog : List Act
  deriving DecidableEq, Repr, Inhabited

abbrev State := List Task

/-- the request task `t` is suspended on, if its next action is an acquisition -/
def nextReq (t : Task) : Option Req :=
  match t.prog with
  | .acq r :: _ => some r
  | _ => none

/-- does task `u` hold a lock that conflicts with request `r`? -/
def holdsConflict (u : Task) (r : Req) : Bool :=
  u.held.any (fun h => h.lock == r.lock && conflicts h.mode r.mode)

/-- is the request `r` of the task at index `i` blocked by another task? -/
def blockedReq (s : State) (i : Nat) (r : Req) : Bool :=
  s.zipIdx.any (fun p => p.2 != i && holdsConflict p.1 r)

/-- task `i` is blocked: its next action is an acquisition that cannot be granted -/
def blocked (s : State) (i : Nat) : Bool :=
  match s[i]? with
  | some t => match nextReq t with
    | some r => blockedReq s i r
    | none => false
  | none => false

def finished (t : Task) : Bool := t.prog.isEmpty

/-- every unfinished task is blocked, and there is an unfinished task -/
def deadlocked (s : State) : Bool :=
  s.any (fun t => !finished t) &&
  s.zipIdx.all (fun p => finished p.1 || blocked s p.2)

/-- one step of task `i` (`none`: finished or blocked) -/
def stepTask (s : State) (i : Nat) : Option State :=
  match s[i]? with
  | none => none
  | some t =>
    match t.prog with
    | [] => none
    | .acq r :: rest =>
      if blockedReq s i r then none
      else some (s.set i { held := r :: t.held, prog := rest })
    | .rel l :: rest => some (s.set i { held := t.held.filter (fun h => h.lock != l), prog := rest })
    | .io :: rest => some (s.set i { held := t.held, prog := rest })

/-- run a schedule (a list of task indices); steps of blocked / finished tasks are skipped -/
def runSched (s : State) : List Nat → State
  | [] => s
  | i :: is => match stepTask s i with
    | some s' => runSched s' is
    | none => runSched s is

/-- the discipline on one (held, requested) pair -/
def okPair (rank : Nat → Nat) (h a : Req) : Bool :=
  rank h.lock < rank a.lock || (rank h.lock == rank a.lock && h.mode == .rd && a.mode == .rd && h.lock != a.lock)

/-- a program is disciplined when run from the held set `held` -/
def progOk (rank : Nat → Nat) : List Req → List Act → Bool
  | _, [] => true
  | held, .acq r :: rest => held.all (fun h => okPair rank h r) && progOk rank (r :: held) rest
  | held, .rel l :: rest => progOk rank (held.filter (fun h => h.lock != l)) rest
  | held, .io :: rest => progOk rank held rest

/-- a state is disciplined: every task's remaining program is, from what it holds -/
def Disciplined (rank : Nat → Nat) (s : State) : Prop := ∀ t ∈ s, progOk rank t.held t.prog = true

/-- no two tasks hold conflicting locks (true initially when nothing is held; preserved
    by `stepTask` because a conflicting acquisition is not granted) -/
def Consistent (s : State) : Prop :=
  ∀ (i j : Nat) (ti tj : Task), s[i]? = some ti → s[j]? = some tj → i ≠ j →
    ∀ h ∈ ti.held, ∀ g ∈ tj.held, h.lock = g.lock → conflicts h.mode g.mode = false

def initState (progs : List (List Act)) : State := progs.map (fun p => { held := [], prog := p })

end Qv.Spec.Lock
