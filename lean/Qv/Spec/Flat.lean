import Qv.Base.FMap
/-
The flat reference disk of C01/C11/C13: guest sectors (512 bytes) carry tokens
(0 = zeros); `own g` records whether guest cluster `g` has its own uncompressed
allocation (what the discard contract C11 refers to).  Independent of the
implementation model: no tables, no refcounts, no host offsets.
-/
namespace Qv.Spec

structure Flat where
  vsize : Nat               -- bytes
  cs : Nat                  -- cluster size in bytes (multiple of 512)
  sec : FMap Nat            -- guest sector → token
  own : FMap Bool           -- guest cluster → has own uncompressed allocation
  deriving Inhabited

namespace Flat

def secPerCl (f : Flat) : Nat := f.cs / 512

/-- content of `n` sectors starting at byte offset `off` -/
def read (f : Flat) (off n : Nat) : List Nat :=
  (List.range n).map (fun i => f.sec.get (off / 512 + i))

/-- write sectors `toks` at byte offset `off` (block aligned, in range: the
    caller checks); every touched cluster becomes owned -/
def write (f : Flat) (off : Nat) (toks : List Nat) : Flat :=
  let n := toks.length
  if n = 0 then f else
  let sec := (List.range n).foldl (fun acc i => acc.set (off / 512 + i) (toks.getD i 0)) f.sec
  let c0 := off / f.cs
  let c1 := (off + n * 512 - 1) / f.cs
  let own := (List.range (c1 - c0 + 1)).foldl (fun acc i => acc.set (c0 + i) true) f.own
  { f with sec := sec, own := own }

/-- C11: clip to the virtual size, round inward to whole clusters, zero every
    whole cluster that has its own uncompressed allocation (and release it);
    everything else is unchanged. -/
def discard (f : Flat) (off len : Nat) : Flat :=
  if len = 0 then f else
  let endU := min (off + len) (2^64 - 1)          -- saturating add in u64
  let e := min endU f.vsize
  if off ≥ e then f else
  let start := (off + f.cs - 1) / f.cs             -- first whole cluster
  let stop := e / f.cs                             -- one past the last whole cluster
  if start ≥ stop then f else
  (List.range (stop - start)).foldl (fun acc i =>
    let g := start + i
    if acc.own.get g then
      { acc with
        sec := (List.range acc.secPerCl).foldl (fun s k => s.set (g * acc.secPerCl + k) 0) acc.sec,
        own := acc.own.set g false }
    else acc) f

end Flat
end Qv.Spec
