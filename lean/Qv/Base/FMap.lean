import Std.Data.HashMap
/-
Total finite maps `Nat → α` with a default: executable (hash map) and used in
proofs only through `get_set_same` / `get_set_other` / `get_empty`.
-/
namespace Qv

structure FMap (α : Type) where
  m : Std.HashMap Nat α
  d : α

namespace FMap
variable {α : Type}

def empty (d : α) : FMap α := { m := {}, d := d }
def get (f : FMap α) (k : Nat) : α := f.m.getD k f.d
def set (f : FMap α) (k : Nat) (v : α) : FMap α := { f with m := f.m.insert k v }

instance [Inhabited α] : Inhabited (FMap α) := ⟨empty default⟩

@[simp] theorem get_empty (d : α) (k : Nat) : (empty d).get k = d := by
  simp [empty, get]

@[simp] theorem get_set_same (f : FMap α) (k : Nat) (v : α) : (f.set k v).get k = v := by
  simp [get, set]

theorem get_set_other (f : FMap α) (k j : Nat) (v : α) (h : k ≠ j) : (f.set k v).get j = f.get j := by
  simp [get, set, Std.HashMap.getD_insert, h]

theorem get_set (f : FMap α) (k j : Nat) (v : α) :
    (f.set k v).get j = if k = j then v else f.get j := by
  by_cases h : k = j
  · subst h; simp
  · simp [h, get_set_other f k j v h]

/-- set `n` consecutive keys starting at `k` to values `g 0 … g (n-1)` -/
def setRange (f : FMap α) (k n : Nat) (g : Nat → α) : FMap α :=
  (List.range n).foldl (fun acc i => acc.set (k + i) (g i)) f

/-- modify one key -/
def modify (f : FMap α) (k : Nat) (h : α → α) : FMap α := f.set k (h (f.get k))

end FMap
end Qv
