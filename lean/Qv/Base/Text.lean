/-
Small text helpers for the line protocol (driver side only).
-/
namespace Qv.Text

def hexDigit (c : Char) : Option Nat :=
  if '0' ≤ c ∧ c ≤ '9' then some (c.toNat - '0'.toNat)
  else if 'a' ≤ c ∧ c ≤ 'f' then some (c.toNat - 'a'.toNat + 10)
  else if 'A' ≤ c ∧ c ≤ 'F' then some (c.toNat - 'A'.toNat + 10)
  else none

def parseHex (s : String) : Option Nat :=
  if s.isEmpty then none else
  s.toList.foldl (fun acc c => match acc, hexDigit c with
    | some a, some d => some (a * 16 + d)
    | _, _ => none) (some 0)

def hexChar (n : Nat) : Char :=
  if n < 10 then Char.ofNat (n + '0'.toNat) else Char.ofNat (n - 10 + 'a'.toNat)

partial def toHexAux (n : Nat) (acc : List Char) : List Char :=
  if n < 16 then hexChar n :: acc else toHexAux (n / 16) (hexChar (n % 16) :: acc)

def toHex (n : Nat) : String := String.ofList (toHexAux n [])

def unhex (s : String) : Array UInt8 := Id.run do
  let cs := s.toList.toArray
  let mut out : Array UInt8 := Array.mkEmpty (cs.size / 2)
  let mut i := 0
  while i + 1 < cs.size do
    let hi := (hexDigit cs[i]!).getD 0
    let lo := (hexDigit cs[i+1]!).getD 0
    out := out.push (UInt8.ofNat (hi * 16 + lo))
    i := i + 2
  return out

def hexBytes (b : Array UInt8) : String :=
  String.ofList (b.toList.flatMap (fun x => [hexChar (x.toNat / 16), hexChar (x.toNat % 16)]))

def optNat : Option Nat → String
  | some n => toString n
  | none => "-"

def optPair : Option (Nat × Nat) → String
  | some (a, b) => s!"{a},{b}"
  | none => "-"

def b01 (b : Bool) : String := if b then "1" else "0"

end Qv.Text
