/-
Outcome of a modelled Rust operation in the *dev profile* (the profile the test
suite builds): every partial operation of the Rust code (index out of bounds,
`unwrap` on `None`/`Err`, `assert!`/`debug_assert!`, integer overflow) is an
explicit `panic`; `Err(..)` results are mapped to a small enum.
-/
namespace Qv

inductive Err where
  | eof | unaligned | beyondEnd | readOnly | backend | nospace | invalid | unsupported | other
  deriving DecidableEq, Repr, Inhabited

def Err.toString : Err → String
  | .eof => "eof" | .unaligned => "unaligned" | .beyondEnd => "beyond-end"
  | .readOnly => "read-only" | .backend => "backend" | .nospace => "nospace"
  | .invalid => "invalid" | .unsupported => "unsupported" | .other => "other"

inductive Outcome (α : Type) where
  | ok (a : α)
  | err (e : Err)
  | panic (site : String)
  deriving Repr, Inhabited

namespace Outcome

@[inline] def bind {α β} (x : Outcome α) (f : α → Outcome β) : Outcome β :=
  match x with
  | ok a => f a
  | err e => err e
  | panic s => panic s

instance : Monad Outcome where
  pure := ok
  bind := bind

def isOk {α} : Outcome α → Bool | ok _ => true | _ => false
def isPanic {α} : Outcome α → Bool | panic _ => true | _ => false
def isErr {α} : Outcome α → Bool | err _ => true | _ => false

@[simp] theorem bind_ok {α β} (a : α) (f : α → Outcome β) : (ok a >>= f) = f a := rfl
@[simp] theorem bind_err {α β} (e : Err) (f : α → Outcome β) : (err e >>= f) = err e := rfl
@[simp] theorem bind_panic {α β} (s : String) (f : α → Outcome β) : (panic s >>= f) = panic s := rfl
@[simp] theorem pure_eq {α} (a : α) : (pure a : Outcome α) = ok a := rfl

end Outcome

/-- u64 checked addition (dev profile: overflow panics). -/
def u64Max : Nat := 2^64 - 1
def U64.add (site : String) (a b : Nat) : Outcome Nat :=
  if a + b < 2^64 then .ok (a + b) else .panic site
def U64.sub (site : String) (a b : Nat) : Outcome Nat :=
  if b ≤ a then .ok (a - b) else .panic site
def U64.mul (site : String) (a b : Nat) : Outcome Nat :=
  if a * b < 2^64 then .ok (a * b) else .panic site

end Qv
