import Qv.Base.Outcome
/-
Mirror of /repo/src/meta/l2.rs (`L2Entry`, `Mapping`, `L2Table::map_cluster`),
of the entry part of src/meta/l1.rs (`L1Entry`) and src/meta/refcount.rs
(`RefTableEntry`).  Entry values are `BitVec 64`; offsets/lengths leave as `Nat`.
-/
namespace Qv.Codec

abbrev E64 := BitVec 64

inductive Source where
  | dataFile | backing | zero | compressed | unallocated
  deriving DecidableEq, Repr, Inhabited

def Source.toString : Source → String
  | .dataFile => "data" | .backing => "backing" | .zero => "zero"
  | .compressed => "compressed" | .unallocated => "unallocated"

structure Mapping where
  source : Source
  clusterOffset : Option Nat
  compressedLength : Option Nat
  copied : Bool
  deriving DecidableEq, Repr, Inhabited

namespace L2

/-- `L2Entry::cluster_offset` -/
def clusterOffset (e : E64) : E64 := e &&& 0x00fffffffffffe00#64
/-- `L2Entry::is_compressed` -/
def isCompressed (e : E64) : Bool := (e &&& (1#64 <<< 62)) != 0#64
/-- `L2Entry::is_copied` -/
def isCopied (e : E64) : Bool := (e &&& (1#64 <<< 63)) != 0#64
/-- `L2Entry::is_zero` -/
def isZero (e : E64) : Bool := (e &&& 1#64) != 0#64
/-- `L2Entry::reserved_bits` -/
def reservedBits (e : E64) : E64 :=
  if isCompressed e then e &&& 0x8000000000000000#64 else e &&& 0x3f000000000001fe#64
/-- `L2Entry::compressed_descriptor` -/
def compressedDescriptor (e : E64) : E64 := e &&& 0x3fffffffffffffff#64

/-- `L2Entry::compressed_range(cluster_bits)`; meaningful for `8 ≤ cb ≤ 70`
    (the code computes `62 - (cluster_bits - 8)` in u32; header parsing limits
    cluster_bits to 9..21). -/
def compressedRange (cb : Nat) (e : E64) : Option (Nat × Nat) :=
  if isCompressed e then
    let desc := compressedDescriptor e
    let cob := 62 - (cb - 8)
    let offset := desc &&& ((1#64 <<< cob) - 1#64) &&& 0x00ffffffffffffff#64
    let sectors := (desc >>> cob).toNat
    let length := (sectors + 1) * 512 - (offset &&& 511#64).toNat
    some (offset.toNat, length)
  else none

/-- `L2Entry::allocation(cluster_bits)` -/
def allocation (cb : Nat) (e : E64) : Option (Nat × Nat) :=
  match compressedRange cb e with
  | some (offset, length) =>
    let cs := 2^cb
    let base := offset / cs * cs
    let clusters := ((offset + length + cs - 1) - base) / cs
    some (base, clusters)
  | none =>
    if (clusterOffset e) = 0#64 then none else some ((clusterOffset e).toNat, 1)

/-- `L2Entry::into_mapping(info, guest_addr)`; `gcOff` is
    `guest_addr.cluster_offset(info)` and `hasBack` is `info.has_back_file()`. -/
def intoMapping (cb : Nat) (hasBack : Bool) (gcOff : Nat) (e : E64) : Mapping :=
  match compressedRange cb e with
  | some (offset, length) =>
    { source := .compressed, clusterOffset := some offset, compressedLength := some length, copied := false }
  | none =>
    if isZero e then
      let off : Option Nat := if clusterOffset e = 0#64 then none else some (clusterOffset e).toNat
      { source := .zero, clusterOffset := off, compressedLength := none,
        copied := off.isSome && isCopied e }
    else if clusterOffset e = 0#64 then
      if isCopied e || hasBack then
        { source := .backing, clusterOffset := some gcOff, compressedLength := none, copied := false }
      else
        { source := .unallocated, clusterOffset := some 0, compressedLength := none, copied := false }
    else
      { source := .dataFile, clusterOffset := some (clusterOffset e).toNat, compressedLength := none,
        copied := isCopied e }

/-- `L2Entry::from_mapping(value, cluster_bits)`, dev profile: every
    `debug_assert!`, `assert!` and `unwrap` is a `panic` outcome. -/
def fromMapping (cb : Nat) (m : Mapping) : Outcome E64 := do
  if m.clusterOffset.getD 0 > 0x00ffffffffffffff then .panic "l2.rs:from_mapping:offset-range" else
  let v : E64 ← (match m.source with
    | .dataFile =>
      if m.compressedLength.isSome then .panic "l2.rs:from_mapping:datafile-len" else
      match m.clusterOffset with
      | none => .panic "l2.rs:from_mapping:unwrap"
      | some off => .ok (if m.copied then (1#64 <<< 63) ||| BitVec.ofNat 64 off else BitVec.ofNat 64 off)
    | .backing =>
      if m.compressedLength.isSome || m.copied then .panic "l2.rs:from_mapping:backing" else .ok 0#64
    | .zero =>
      if m.compressedLength.isSome then .panic "l2.rs:from_mapping:zero-len" else
      if m.copied then
        match m.clusterOffset with
        | none => .panic "l2.rs:from_mapping:unwrap"
        | some off => .ok ((1#64 <<< 63) ||| BitVec.ofNat 64 off ||| 1#64)
      else .ok (BitVec.ofNat 64 (m.clusterOffset.getD 0) ||| 1#64)
    | .compressed =>
      if m.copied then .panic "l2.rs:from_mapping:compressed-copied" else
      match m.clusterOffset, m.compressedLength with
      | some off, some len =>
        if len = 0 then .panic "l2.rs:from_mapping:assert-length-positive" else
        let cob := 62 - (cb - 8)
        let sectors := (len - 1 + off % 512) / 512
        if ¬ (sectors < 2^(cb - 8)) then .panic "l2.rs:from_mapping:assert-sectors" else
        .ok ((1#64 <<< 62) ||| (BitVec.ofNat 64 sectors <<< cob) ||| BitVec.ofNat 64 off)
      | _, _ => .panic "l2.rs:from_mapping:unwrap"
    | .unallocated => .ok 0#64 : Outcome E64)
  if reservedBits v ≠ 0#64 then .panic "l2.rs:from_mapping:reserved" else .ok v

/-- `Mapping::plain_offset(in_cluster_offset)` -/
def plainOffset (m : Mapping) (inCl : Nat) : Option Nat :=
  if m.source = .dataFile ∧ m.copied then m.clusterOffset.map (· + inCl) else none

/-- `TableEntry::try_from_plain` for L2 entries (`cs = 2^cb`). -/
def tryFromPlain (cb : Nat) (e : E64) : Bool :=
  reservedBits e = 0#64 ∧ (isCompressed e ∨ (clusterOffset e).toNat % 2^cb = 0)

/-- The value `L2Table::map_cluster` stores: DataFile, copied, `host`. -/
def mapClusterEntry (host : Nat) : E64 := (1#64 <<< 63) ||| BitVec.ofNat 64 host

end L2

namespace L1
/-- `L1Entry::l2_offset` -/
def l2Offset (e : E64) : E64 := e &&& 0x00fffffffffffe00#64
def isCopied (e : E64) : Bool := (e &&& (1#64 <<< 63)) != 0#64
def isZero (e : E64) : Bool := l2Offset e = 0#64
def reservedBits (e : E64) : E64 := e &&& 0x7f000000000001fe#64
def tryFromPlain (cb : Nat) (e : E64) : Bool :=
  reservedBits e = 0#64 ∧ (l2Offset e).toNat % 2^cb = 0
/-- `L1Table::map_l2_offset` stores `(1 << 63) | l2_offset`. -/
def mapEntry (l2off : Nat) : E64 := (1#64 <<< 63) ||| BitVec.ofNat 64 l2off
end L1

namespace RT
/-- `RefTableEntry::refblock_offset` -/
def refblockOffset (e : E64) : E64 := e &&& 0xfffffffffffffe00#64
def isZero (e : E64) : Bool := refblockOffset e = 0#64
def reservedBits (e : E64) : E64 := e &&& 0x00000000000001ff#64
def tryFromPlain (cb : Nat) (e : E64) : Bool :=
  reservedBits e = 0#64 ∧ (refblockOffset e).toNat % 2^cb = 0
end RT

end Qv.Codec
