import Qv.Base.Outcome
/-
Mirror of `RefBlock::{__get, __set, increment, decrement, get_free_range,
get_tail_free_range, alloc_range}` in /repo/src/meta/refcount.rs.
A refcount block (slice) is its raw byte array; `order` is `refcount_order`
(entry width = 2^order bits, 0 ≤ order ≤ 6).
-/
namespace Qv.Codec.Rc

abbrev Buf := Array UInt8

/-- number of entries: `byte_size * 8 / (1 << order)` -/
def entries (order : Nat) (buf : Buf) : Nat := buf.size * 8 / 2^order

/-- big-endian read of `n` bytes starting at `pos` (caller guarantees bounds) -/
def beRead (buf : Buf) (pos n : Nat) : Nat :=
  (List.range n).foldl (fun acc k => acc * 256 + (buf[pos + k]!).toNat) 0

/-- `RefBlock::__get(index)`; out-of-bounds indexing panics as in Rust. -/
def get (order : Nat) (buf : Buf) (i : Nat) : Outcome Nat :=
  match order with
  | 0 => if i / 8 < buf.size then .ok (((buf[i / 8]!).toNat >>> (i % 8)) % 2) else .panic "refcount.rs:__get:index"
  | 1 => if i / 4 < buf.size then .ok (((buf[i / 4]!).toNat >>> ((i % 4) * 2)) % 4) else .panic "refcount.rs:__get:index"
  | 2 => if i / 2 < buf.size then .ok (((buf[i / 2]!).toNat >>> ((i % 2) * 4)) % 16) else .panic "refcount.rs:__get:index"
  | 3 => if i < buf.size then .ok (buf[i]!).toNat else .panic "refcount.rs:__get:index"
  | 4 => if i * 2 + 2 ≤ buf.size then .ok (beRead buf (i * 2) 2) else .panic "refcount.rs:__get:index"
  | 5 => if i * 4 + 4 ≤ buf.size then .ok (beRead buf (i * 4) 4) else .panic "refcount.rs:__get:index"
  | 6 => if i * 8 + 8 ≤ buf.size then .ok (beRead buf (i * 8) 8) else .panic "refcount.rs:__get:index"
  | _ => .panic "refcount.rs:__get:unreachable"

/-- write `n` big-endian bytes of `v` at `pos` -/
def beWrite (buf : Buf) (pos n v : Nat) : Buf :=
  (List.range n).foldl (fun b k => b.set! (pos + k) (UInt8.ofNat (v / 256^(n - 1 - k) % 256))) buf

/-- `RefBlock::__set(index, value)`: `Err` when the value does not fit
    (orders 0..5), panic on out-of-bounds index. -/
def set (order : Nat) (buf : Buf) (i v : Nat) : Outcome Buf :=
  if order < 6 ∧ v > 2^(2^order) - 1 then .err .invalid else
  match order with
  | 0 => if i / 8 < buf.size then
      let b := (buf[i / 8]!).toNat
      let cleared := b - ((b >>> (i % 8)) % 2) * 2^(i % 8)
      .ok (buf.set! (i / 8) (UInt8.ofNat (cleared + v * 2^(i % 8)))) else .panic "refcount.rs:__set:index"
  | 1 => if i / 4 < buf.size then
      let sh := (i % 4) * 2
      let b := (buf[i / 4]!).toNat
      let cleared := b - ((b >>> sh) % 4) * 2^sh
      .ok (buf.set! (i / 4) (UInt8.ofNat (cleared + v * 2^sh))) else .panic "refcount.rs:__set:index"
  | 2 => if i / 2 < buf.size then
      let sh := (i % 2) * 4
      let b := (buf[i / 2]!).toNat
      let cleared := b - ((b >>> sh) % 16) * 2^sh
      .ok (buf.set! (i / 2) (UInt8.ofNat (cleared + v * 2^sh))) else .panic "refcount.rs:__set:index"
  | 3 => if i < buf.size then .ok (buf.set! i (UInt8.ofNat v)) else .panic "refcount.rs:__set:index"
  | 4 => if i * 2 + 2 ≤ buf.size then .ok (beWrite buf (i * 2) 2 v) else .panic "refcount.rs:__set:index"
  | 5 => if i * 4 + 4 ≤ buf.size then .ok (beWrite buf (i * 4) 4 v) else .panic "refcount.rs:__set:index"
  | 6 => if i * 8 + 8 ≤ buf.size then .ok (beWrite buf (i * 8) 8 v) else .panic "refcount.rs:__set:index"
  | _ => .panic "refcount.rs:__set:unreachable"

/-- `RefBlock::increment` (checked_add on u64, then `__set`) -/
def increment (order : Nat) (buf : Buf) (i : Nat) : Outcome Buf := do
  let v ← get order buf i
  if v + 1 ≥ 2^64 then .err .invalid else set order buf i (v + 1)

/-- `RefBlock::decrement` (checked_sub, then `__set`) -/
def decrement (order : Nat) (buf : Buf) (i : Nat) : Outcome Buf := do
  let v ← get order buf i
  if v = 0 then .err .invalid else set order buf i (v - 1)

end Qv.Codec.Rc
