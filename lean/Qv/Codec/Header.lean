import Qv.Base.Outcome
/-
Mirror of `Qcow2Header::from_buf`, `serialize_to_buf`, `serialize_extensions`
and `Qcow2HeaderExtension::{from, serialize_data}` (src/meta/header.rs) over
byte arrays.  bincode's fixint big-endian layout of the packed 105-byte raw
header is written out field by field.  Every Rust partial operation is an
explicit outcome; loops take fuel (the extension walk advances by ≥ 8 bytes per
round, so `size / 8 + 1` rounds suffice — `parse_fuel_irrelevant` in
Qv/Props/C14.lean).
-/
namespace Qv.Codec.Hdr

abbrev Bytes := Array UInt8

def beAt (b : Bytes) (off n : Nat) : Nat :=
  (List.range n).foldl (fun acc k => acc * 256 + (b.getD (off + k) 0).toNat) 0

def bePut (v n : Nat) : List UInt8 :=
  (List.range n).map (fun k => UInt8.ofNat (v / 256^(n - 1 - k) % 256))

structure Raw where
  magic : Nat
  version : Nat
  backingOff : Nat
  backingSize : Nat
  clusterBits : Nat
  size : Nat
  crypt : Nat
  l1Size : Nat
  l1Off : Nat
  rtOff : Nat
  rtClusters : Nat
  nbSnap : Nat
  snapOff : Nat
  incompat : Nat
  compat : Nat
  autoclear : Nat
  refcountOrder : Nat
  headerLength : Nat
  compression : Nat
  deriving Repr, DecidableEq, Inhabited

/-- one entry of a feature name table: (type, bit, name bytes without trailing zeros);
    `lossy` marks a name that is not valid UTF-8 (Rust replaces it lossily:
    its re-serialisation is outside the model) -/
structure Feat where
  ty : Nat
  bit : Nat
  name : List UInt8
  lossy : Bool
  deriving Repr, DecidableEq, Inhabited

inductive Ext where
  | backingFormat (s : List UInt8)
  | featureTable (fs : List Feat)
  | unknown (ty : Nat) (data : List UInt8)
  deriving Repr, DecidableEq, Inhabited

structure Header where
  raw : Raw
  backing : Option (List UInt8)
  exts : List Ext
  deriving Repr, DecidableEq, Inhabited

def rawSize : Nat := 105
def magicV : Nat := 0x514649fb

def readRaw (b : Bytes) : Raw :=
  { magic := beAt b 0 4, version := beAt b 4 4, backingOff := beAt b 8 8, backingSize := beAt b 16 4,
    clusterBits := beAt b 20 4, size := beAt b 24 8, crypt := beAt b 32 4, l1Size := beAt b 36 4,
    l1Off := beAt b 40 8, rtOff := beAt b 48 8, rtClusters := beAt b 56 4, nbSnap := beAt b 60 4,
    snapOff := beAt b 64 8, incompat := beAt b 72 8, compat := beAt b 80 8, autoclear := beAt b 88 8,
    refcountOrder := beAt b 96 4, headerLength := beAt b 100 4, compression := beAt b 104 1 }

def utf8Valid (l : List UInt8) : Bool := String.validateUTF8 ⟨l.toArray⟩

def trimZeros (l : List UInt8) : List UInt8 :=
  (l.reverse.dropWhile (· == 0)).reverse

/-- `FeatureNameTable` parsing: chunks of 48 bytes; a chunk shorter than 2 bytes
    and entries with an unknown type are skipped; later entries with the same
    (type, bit) replace earlier ones (HashMap insert) -/
def parseFeats (data : List UInt8) : List Feat :=
  let rec chunks (l : List UInt8) (fuel : Nat) : List (List UInt8) :=
    match fuel with
    | 0 => []
    | fuel + 1 => if l.isEmpty then [] else l.take 48 :: chunks (l.drop 48) fuel
  let cs := chunks data (data.length / 48 + 1)
  cs.foldl (fun acc c =>
    if c.length < 2 then acc else
    let ty := (c.getD 0 0).toNat
    if ty > 2 then acc else
    let bit := (c.getD 1 0).toNat
    let nm := c.drop 2
    let f : Feat := { ty := ty, bit := bit, name := trimZeros nm, lossy := !utf8Valid nm }
    (acc.filter (fun g => ¬ (g.ty = ty ∧ g.bit = bit))) ++ [f]) []

/-- `Qcow2HeaderExtension::from(type, data)`: `none` = end of extensions -/
def extFrom (ty : Nat) (data : List UInt8) : Outcome (Option Ext) :=
  if ty = 0 then .ok none
  else if ty = 0xe2792aca then
    if utf8Valid data then .ok (some (.backingFormat data)) else .err .invalid
  else if ty = 0x6803f857 then .ok (some (.featureTable (parseFeats data)))
  else .ok (some (.unknown ty data))

def alignUp8 (n : Nat) : Nat := (n + 7) / 8 * 8

/-- the extension walk of `from_buf` -/
def walkExts (b : Bytes) (cs : Nat) : Nat → Nat → List Ext → Outcome (List Ext)
  | 0, _, _ => .err .invalid
  | fuel + 1, off, acc =>
    if off + 8 > cs ∨ off + 8 > b.size then .err .invalid else
    let ty := beAt b off 4
    let len := beAt b (off + 4) 4
    let off := off + 8
    if off + len > cs ∨ off + len > b.size then .err .invalid else
    let data := (b.extract off (off + len)).toList
    match extFrom ty data with
    | .ok none => .ok acc.reverse
    | .ok (some e) => walkExts b cs fuel (off + alignUp8 len) (e :: acc)
    | .err x => .err x
    | .panic p => .panic p

/-- `Qcow2Header::from_buf(header_buf)` -/
def parse (b : Bytes) : Outcome Header :=
  if b.size < rawSize then .err .invalid else
  let r := readRaw b
  if r.magic ≠ magicV then .err .invalid else
  if r.version < 2 ∨ r.version > 3 then .err .unsupported else
  let r := if r.version = 2 then
      { r with incompat := 0, compat := 0, autoclear := 0, refcountOrder := 4, headerLength := 72, compression := 0 }
    else r
  if r.crypt ≠ 0 then .err .unsupported else
  if r.refcountOrder > 6 then .err .unsupported else
  let r := if r.headerLength ≤ 104 then { r with compression := 0 } else r
  if r.compression ≠ 0 then .err .unsupported else
  if ¬ (9 ≤ r.clusterBits ∧ r.clusterBits ≤ 30) then .err .invalid else
  let cs := 2^r.clusterBits
  if cs > 2 * 2^20 then .err .invalid else
  if r.l1Off % cs ≠ 0 then .err .invalid else
  if r.rtOff % cs ≠ 0 then .err .invalid else
  if r.rtClusters * cs > 8 * 2^20 then .err .invalid else
  if r.l1Size * 8 > 32 * 2^20 then .err .invalid else
  let backing : Outcome (Option (List UInt8)) :=
    if r.backingOff ≠ 0 then
      if r.backingSize > 1023 then .err .invalid else
      let e := r.backingOff + r.backingSize
      if e ≥ 2^64 then .err .invalid else
      if e > cs then .err .invalid else
      if e > b.size then .err .invalid else
      let nm := (b.extract (e - r.backingSize) e).toList
      if utf8Valid nm then .ok (some nm) else .err .invalid
    else .ok none
  match backing with
  | .err x => .err x
  | .panic p => .panic p
  | .ok bk =>
    match walkExts b cs (b.size / 8 + 2) r.headerLength [] with
    | .err x => .err x
    | .panic p => .panic p
    | .ok exts =>
      if r.incompat ≠ 0 then .err .unsupported else
      .ok { raw := r, backing := bk, exts := exts }

def extType : Ext → Nat
  | .backingFormat _ => 0xe2792aca
  | .featureTable _ => 0x6803f857
  | .unknown t _ => t

/-- `serialize_data`; a feature name is truncated to 46 bytes and zero padded -/
def extData : Ext → List UInt8
  | .backingFormat s => s
  | .featureTable fs => fs.flatMap (fun f =>
      [UInt8.ofNat f.ty, UInt8.ofNat f.bit] ++ (f.name.take 46) ++ List.replicate (46 - min f.name.length 46) 0)
  | .unknown _ d => d

def padTo8 (l : List UInt8) : List UInt8 := l ++ List.replicate (alignUp8 l.length - l.length) 0

/-- `serialize_extensions` -/
def serExts (exts : List Ext) : List UInt8 :=
  let body := exts.foldl (fun acc e =>
    let d := extData e
    padTo8 (acc ++ bePut (extType e) 4 ++ bePut d.length 4 ++ d)) []
  padTo8 (body ++ bePut 0 4 ++ bePut 0 4)

/-- `Qcow2RawHeader::serialize_vec` (header_length := 112) -/
def serRaw (r : Raw) : List UInt8 :=
  bePut r.magic 4 ++ bePut r.version 4 ++ bePut r.backingOff 8 ++ bePut r.backingSize 4 ++
  bePut r.clusterBits 4 ++ bePut r.size 8 ++ bePut r.crypt 4 ++ bePut r.l1Size 4 ++ bePut r.l1Off 8 ++
  bePut r.rtOff 8 ++ bePut r.rtClusters 4 ++ bePut r.nbSnap 4 ++ bePut r.snapOff 8 ++ bePut r.incompat 8 ++
  bePut r.compat 8 ++ bePut r.autoclear 8 ++ bePut r.refcountOrder 4 ++ bePut 112 4 ++ bePut r.compression 1 ++
  List.replicate 7 0

/-- `serialize_to_buf`: raw header (112) ++ extensions ++ backing name -/
def serialize (h : Header) : Outcome (List UInt8) :=
  let exts := serExts h.exts
  let r := match h.backing with
    | some nm => { h.raw with backingOff := 112 + exts.length, backingSize := nm.length }
    | none => { h.raw with backingOff := 0, backingSize := 0 }
  let full := serRaw r ++ exts ++ (h.backing.getD [])
  if full.length > 2^h.raw.clusterBits then .err .invalid else .ok full

/-- does re-serialisation depend on something outside the model (lossy names,
    several feature entries whose HashMap order is not canonical)? -/
def unmodelledSer (h : Header) : Bool :=
  h.exts.any (fun e => match e with
    | .featureTable fs => fs.length > 1 || fs.any (·.lossy)
    | _ => false)

def backingFormat (h : Header) : Option (List UInt8) :=
  h.exts.findSome? (fun e => match e with | .backingFormat s => some s | _ => none)

end Qv.Codec.Hdr
