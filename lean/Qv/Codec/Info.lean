import Qv.Base.Outcome
/-
Mirror of /repo/src/dev/info.rs (`Qcow2Info::new`, `Qcow2DevParams`, the
`__max_*` helpers), src/meta/addr.rs (`SplitGuestOffset`) and the index
arithmetic of `HostCluster` in src/dev/alloc.rs.
-/
namespace Qv.Codec

/-- `Qcow2DevParams` -/
structure Params where
  bsBits : Nat
  rbCache : Option (Nat × Nat)   -- (slice bits, cache bytes)
  l2Cache : Option (Nat × Nat)
  readOnly : Bool
  backing : Bool                 -- `mark_backing_dev` was called (forces readOnly)
  deriving Repr, DecidableEq, Inhabited

/-- the header fields `Qcow2Info::new` reads -/
structure HdrGeo where
  clusterBits : Nat
  refcountOrder : Nat
  size : Nat
  hasBackingName : Bool
  deriving Repr, DecidableEq, Inhabited

/-- `Qcow2Info` -/
structure Info where
  bsb : Nat            -- block_size_shift
  cb : Nat             -- cluster_shift
  l2IndexShift : Nat
  l2SliceIndexShift : Nat
  l2SliceBits : Nat
  ro : Nat             -- refcount_order
  rbSliceBits : Nat
  rbIndexShift : Nat
  rbSliceIndexShift : Nat
  l2SliceEntries : Nat
  l2CacheCnt : Nat
  rbCacheCnt : Nat
  vsize : Nat
  readOnly : Bool
  hasBack : Bool
  isBack : Bool
  deriving Repr, DecidableEq, Inhabited

/-- `trailing_zeros` of a power of two is its log; for the values that reach it
    in `Qcow2Info::new` (powers of two) this is `Nat.log2`; for 0 Rust returns the
    bit width (32/64), which we keep as a parameter. -/
def tz (width n : Nat) : Nat :=
  if n = 0 then width else
  (List.range width).foldr (fun k acc => if n % 2^(k+1) ≠ 0 ∧ n % 2^k = 0 then k else acc) 0

/-- `cache_geometry` inner fn of `Qcow2Info::new` -/
def cacheGeometry (param : Option (Nat × Nat)) (defaultBytes bsBits cb : Nat) : Outcome (Nat × Nat) :=
  match param with
  | some (b, s) =>
    if ¬ (b ≥ bsBits ∧ b ≤ cb) then .panic "info.rs:cache_geometry:debug_assert" else
    if ¬ (s / 2^b ≥ 2) then .panic "info.rs:cache_geometry:assert" else
    .ok (b, s / 2^b)
  | none =>
    -- a slice can't be bigger than one cluster
    let bits := min 12 cb
    .ok (bits, max (defaultBytes / 2^bits) 2)

/-- `Qcow2Info::new(h, p)` in the dev profile. -/
def Info.new (h : HdrGeo) (p : Params) : Outcome Info := do
  if p.backing ∧ ¬ p.readOnly then .panic "info.rs:new:assert-ro" else
  let cb := h.clusterBits
  if cb ≥ 256 then .panic "info.rs:new:cluster_bits-u8" else
  if cb ≥ 64 then .err .invalid else
  let cs := 2^cb
  if h.refcountOrder ≥ 256 then .panic "info.rs:new:refcount_order-u8" else
  let ro := h.refcountOrder
  if cb < 3 then .panic "info.rs:new:cluster_shift-3" else
  let l2MappingBytes := min (h.size / 2^(cb - 3)) (32 * 2^20)
  let (l2sb, l2cnt) ← cacheGeometry p.l2Cache l2MappingBytes p.bsBits cb
  let (rbsb, rbcnt) ← cacheGeometry p.rbCache (256 * 2^10) p.bsBits cb
  let l2Entries := cs / 8
  if l2sb > cb then .panic "info.rs:new:cluster_shift-l2_slice_bits" else
  let l2SliceEntries := (l2Entries % 2^32) / 2^(cb - l2sb)
  if ro ≥ 64 then .panic "info.rs:new:1<<refcount_order" else
  let rbEntries := cs * 8 / 2^ro
  if rbsb + 3 ≥ 32 then .panic "info.rs:new:1<<(rb_slice_bits+3)" else
  let rbSliceEntries := 2^(rbsb + 3) / 2^ro
  if l2cnt ≥ 2^32 then .panic "info.rs:new:l2_cache_cnt-u32" else
  if rbcnt ≥ 2^32 then .panic "info.rs:new:rb_cache_cnt-u32" else
  if l2Entries = 0 then .panic "info.rs:new:l2_entries-1" else
  if rbEntries = 0 then .panic "info.rs:new:rb_entries-1" else
  .ok { bsb := p.bsBits, cb := cb,
        l2IndexShift := tz 64 l2Entries,
        l2SliceIndexShift := tz 32 l2SliceEntries,
        l2SliceBits := l2sb, ro := ro, rbSliceBits := rbsb,
        rbIndexShift := tz 64 rbEntries,
        rbSliceIndexShift := tz 32 rbSliceEntries,
        l2SliceEntries := l2SliceEntries,
        l2CacheCnt := l2cnt, rbCacheCnt := rbcnt,
        vsize := h.size,
        readOnly := p.readOnly, hasBack := h.hasBackingName, isBack := p.backing }

namespace Info
variable (i : Info)
def clusterSize : Nat := 2^i.cb
def bs : Nat := 2^i.bsb
def l2Entries : Nat := i.clusterSize / 8
def rbEntries : Nat := (i.clusterSize * 8) / 2^i.ro
def rbSliceEntries : Nat := 2^(i.rbSliceBits + 3) / 2^i.ro
def inClusterOffset (off : Nat) : Nat := off % i.clusterSize
def clusterRoundDown (off : Nat) : Nat := off / i.clusterSize * i.clusterSize
/-- `cluster_round_up`: `round_down(offset + mask)`; u64 addition is checked in the dev profile. -/
def clusterRoundUp (off : Nat) : Outcome Nat :=
  if off + (i.clusterSize - 1) < 2^64 then .ok ((off + (i.clusterSize - 1)) / i.clusterSize * i.clusterSize)
  else .panic "info.rs:cluster_round_up:overflow"

/-- `__max_l1_entries(size, cluster_bits, l2_entries)` -/
def maxL1EntriesOf (size cb : Nat) : Nat :=
  let l2e := 2^cb / 8
  let per := l2e * 2^cb
  min ((size + per - 1) / per) ((32 * 2^20) / 8)
def maxL1Entries : Nat := maxL1EntriesOf i.vsize i.cb
/-- `__max_l1_size(entries, bs)` = align_up(entries*8, bs) -/
def alignUp (x a : Nat) : Nat := (x + a - 1) / a * a
def maxL1Size (entries bs : Nat) : Nat := alignUp (entries * 8) bs
/-- `__max_refcount_table_size(size, cluster_size, refcount_order, bs)` -/
def maxRefcountTableSize (size cs ro bs : Nat) : Nat :=
  let rbEntries := cs * 8 / 2^ro
  let rtEntrySize := rbEntries * cs
  let n := (size + rtEntrySize - 1) / rtEntrySize
  min (alignUp (n * 8) bs) (8 * 2^20)
end Info

/- `SplitGuestOffset` index arithmetic (addr.rs). -/
namespace Split
variable (i : Info) (off : Nat)
def l1Index : Nat := off / 2^(i.cb + i.l2IndexShift)
def l2Index : Nat := (off / 2^i.cb) % 2^i.l2IndexShift      -- `& l2_index_mask`, mask = l2_entries-1
def l2SliceIndex : Nat := (off / 2^i.cb) % i.l2SliceEntries
def l2SliceKey : Nat := off / 2^(i.cb + i.l2SliceIndexShift)
def l2SliceOffInTable : Nat := (l2Index i off / 2^i.l2SliceIndexShift) * 2^i.l2SliceBits
def inClusterOffset : Nat := off % 2^i.cb
def clusterOffset : Nat := (l1Index i off * 2^(i.cb - 3) + l2Index i off) * 2^i.cb
end Split

/- `HostCluster` index arithmetic (alloc.rs). -/
namespace Host
variable (i : Info) (off : Nat)
def rtIndex : Nat := off / 2^(i.rbIndexShift + i.cb)
def rbIndex : Nat := (off / 2^i.cb) % 2^i.rbIndexShift
def rbSliceIndex : Nat := (off / 2^i.cb) % i.rbSliceEntries
def rbSliceKey : Nat := off / 2^(i.cb + i.rbSliceIndexShift)
def rbSliceHostStart : Nat := off / 2^(i.cb + i.rbSliceIndexShift) * 2^(i.cb + i.rbSliceIndexShift)
def rbSliceHostEnd : Nat := rbSliceHostStart i off + i.rbSliceEntries * 2^i.cb
def rbHostStart : Nat := off / 2^(i.cb + i.rbIndexShift) * 2^(i.cb + i.rbIndexShift)
def rbHostEnd : Nat := rbHostStart i off + i.rbEntries * 2^i.cb
def rbSliceOffInTable : Nat := (rbIndex i off / 2^i.rbSliceIndexShift) * 2^i.rbSliceBits
def clusterOffFromSlice (idx : Nat) : Nat := rbSliceHostStart i off + idx * 2^i.cb
end Host

/-- `rb_slice_key_of_rt_off` / `l2_slice_key_of_l1_off` (dev/cache.rs). -/
def rbSliceKeyOfRtOff (i : Info) (off : Nat) : Nat :=
  Host.rbSliceKey i ((off / 8) * 2^i.rbIndexShift * 2^i.cb)
def l2SliceKeyOfL1Off (i : Info) (off : Nat) : Nat :=
  Split.l2SliceKey i ((off / 8) * 2^i.l2IndexShift * 2^i.cb)

end Qv.Codec
