import Driver.Seq
import Qv.Spec.Image
import Qv.Spec.Crash
/-
`crash` mode of the driver (C04, C05): replays the request log of the real code
(modifying requests with payloads, syncs), constructs crash states of the host
file — everything before the last completed sync is durable, every later
request is independently applied or lost, torn at block granularity — and
judges each with the specification:

  C04  `Spec.judge` must find no structural error and no under-counted cluster
       (leaks are the only permitted damage);
  C05  once a flush_meta + fsync_range pair has completed, every guest sector
       read from the crash file by the independent reader `Spec.guestSector`
       must hold the synced token or the token of a later operation on it.

The subsets explored per crash point are chosen by `Spec.Crash.subsetsFor`
(all / none / singletons / all-but-one / pairs with the newest request /
prefixes / pseudo-random); thorough mode enumerates every subset of small
pending sets.
-/
namespace Qv.Driver
open Qv.Text Qv.Spec

structure CrashStats where
  points : Nat := 0
  states : Nat := 0
  unsafeCnt : Nat := 0
  lost : Nat := 0
  maxPending : Nat := 0

def applyReq (b : ByteArray) (r : Crash.Req) : ByteArray := Crash.apply b r

partial def runCrash (dir : String) (lines : Array String) (log : Array String) (thorough : Bool)
    (out : IO.FS.Stream) (focusHdr : Bool := false) : IO Unit := do
  -- index the log by case
  let mut caseLog : Std.HashMap Nat (Array String) := {}
  let mut cur : Array String := #[]
  let mut cid := 0
  for l in log do
    if l.startsWith "case " then
      cid := nat! ((l.splitOn " ").getD 1 "0"); cur := #[]
    else if l == "end" then caseLog := caseLog.insert cid cur
    else cur := cur.push l
  let mut i := 0
  while i < lines.size do
    let line := lines[i]!
    if !line.startsWith "case " then
      i := i + 1
      continue
    let h := parseCaseHdr line
    -- collect ops
    let mut ops : Array (List String) := #[]
    let mut j := i + 1
    while j < lines.size && lines[j]! != "end" do
      match (lines[j]!).splitOn " " with
      | "op" :: _ :: rest => ops := ops.push rest
      | _ => pure ()
      j := j + 1
    i := j + 1
    let imgPath := s!"{dir}/case{h.id}.img0"
    if !(← System.FilePath.pathExists imgPath) then continue
    let img0 ← IO.FS.readBinFile imgPath
    -- the flat disk (oracle for C05) and the backing content for the reader
    let init ← if h.img == "format" then pure (initCase h) else initBuilt dir h
    let some st0 := (match init with | .ok s => some s | _ => none) | continue
    let mut flat := st0.flat
    let backSec : Nat → Nat := match st0.dev.back with
      | some b => fun s => if (s + 1) * 512 ≤ b.vsize then b.sec s else 0
      | none => fun _ => 0
    let reqLines := caseLog.getD h.id #[]
    -- `focusHdr` (big images, C12): every crash point inside operations that rewrite the
    -- header (table relocation) and their neighbours, a sparse sample of the others
    let hdrReqs : List Nat := if !focusHdr then [] else
      reqLines.toList.zipIdx.filterMap (fun (l, ix) => match l.splitOn " " with
        | "W" :: _ :: off :: _ => if off == "0" then some ix else none
        | _ => none)
    -- (the window covers the whole relocation: write-back of dirty refblocks, new refblock,
    -- new table, syncs, header, and the release of the old table afterwards)
    let inFocus := fun (_k rix : Nat) =>
      !focusHdr || hdrReqs.any (fun o => o ≤ rix + 48 ∧ rix ≤ o + 24) || rix % 211 == 0
    let mut durable := img0
    -- token of every host sector of the durable file
    let mut durTok : Array (Option Nat) := (Array.range ((img0.size + 511) / 512)).map (fun hs => sectorTok img0 (hs * 512))
    let mut pending : Array Crash.Req := #[]
    let mut stats : CrashStats := {}
    let mut rix := 0
    -- C05 state: allowed tokens per guest sector since the last sync point
    let mut synced : Option (Std.HashMap Nat (List Nat)) := none
    let mut prevFlushOk := false
    let mut seedv := h.id * 7919 + 13
    for k in [0:ops.size + 1] do
      -- an operation's own values are allowed from the moment it is issued
      if k < ops.size then
        match ops[k]! with
        | ["write", off, len, tok] =>
          let off := nat! off; let len := nat! len; let tok := nat! tok
          synced := synced.map fun a =>
            (List.range (len / 512)).foldl (fun a i => a.insert (off / 512 + i) ((tok + i) :: a.getD (off / 512 + i) [0])) a
        | ["discard", off, len] =>
          if !h.rdonly then
            let after := flat.discard (nat! off) (nat! len)
            synced := synced.map fun a =>
              (List.range (flat.vsize / 512)).foldl (fun a s =>
                if after.sec.get s ≠ flat.sec.get s then a.insert s (0 :: a.getD s [0]) else a) a
        | _ => pure ()
      -- requests issued by op k
      while rix < reqLines.size do
        let t := (reqLines[rix]!).splitOn " "
        let opk := nat! (t.getD 1 "0")
        if opk != k then break
        rix := rix + 1
        match t with
        | ["S", _] =>
          durable := pending.foldl applyReq durable
          -- refresh the tokens of the sectors the applied requests touched
          let nsecs := (durable.size + 511) / 512
          if durTok.size < nsecs then
            durTok := durTok ++ Array.replicate (nsecs - durTok.size) (some 0)
          for r in pending do
            let n := (match r.data with | some d => d.size | none => r.len) / 512 + 1
            for ii in [0:n] do
              let hs := r.off / 512 + ii
              if hs < nsecs then durTok := durTok.set! hs (sectorTok durable (hs * 512))
          pending := #[]
        | "W" :: _ :: off :: len :: rest =>
          let r : Crash.Req := { off := nat! off, len := nat! len, data := some (unhex (rest.getD 0 "")) }
          pending := pending.push r
        | ["Z", _, off, len] =>
          pending := pending.push { off := nat! off, len := nat! len, data := none }
        | _ => pure ()
        match t with
        | "S" :: _ => pure ()
        | _ =>
          if !inFocus k rix then continue
          -- crash point right after this request was issued
          stats := { stats with points := stats.points + 1, maxPending := max stats.maxPending pending.size }
          let bs := 2^h.bsb
          let subsets := Crash.subsetsFor pending.size seedv thorough
          seedv := seedv * 1103515245 + 12345
          for sub in subsets do
            for torn in Crash.tearings pending sub bs do
              let f := torn.foldl applyReq durable
              stats := { stats with states := stats.states + 1 }
              match parseHdr f with
              | .error e =>
                stats := { stats with unsafeCnt := stats.unsafeCnt + 1 }
                out.putStrLn s!"unsafe case={h.id} op={k} req={rix - 1} subset={sub} verdict=header:{e}"
              | .ok hd =>
                let m : Img := { b := f, h := hd }
                let v := judge m
                if !v.crashSafe then
                  stats := { stats with unsafeCnt := stats.unsafeCnt + 1 }
                  -- mechanism: compare the first under-counted cluster with the durable state
                  let cls : String :=
                    if !v.structural.isEmpty then "structural:" ++ ((v.structural.headD "").splitOn " ").headD ""
                    else
                      match (v.under.headD "").splitOn " " with
                      | [_, c, _, _] =>
                        let c := nat! ((c.splitOn "=").getD 1 "0")
                        match parseHdr durable with
                        | .ok dh =>
                          let md : Img := { b := durable, h := dh }
                          let rcD := md.refcount c
                          let refsD := (collectRefs md).cnt.getD c 0
                          let rcS := m.refcount c
                          let refsS := (collectRefs m).cnt.getD c 0
                          if rcS < rcD ∧ refsS ≤ refsD then "refcount-decrement-before-unmap"
                          else if refsS > refsD ∧ rcS ≥ rcD then "pointer-before-refcount"
                          else "mixed"
                        | .error _ => "durable-unparsable"
                      | _ => "other"
                  if stats.unsafeCnt ≤ 6 then
                    out.putStrLn s!"unsafe case={h.id} op={k} req={rix - 1} class={cls} subset={sub} pending={pending.size} verdict={v.text}"
                match synced with
                | none => pure ()
                | some allowed =>
                  let nsec := h.size / 512
                  -- host sector tokens of this crash state: applied requests over the durable file
                  let overlay : Std.HashMap Nat (Option Nat) := torn.foldl (fun ov r =>
                    let n := (match r.data with | some d => d.size | none => r.len) / 512
                    (List.range n).foldl (fun ov ii =>
                      let hs := r.off / 512 + ii
                      match r.data with
                      | some d => ov.insert hs (sectorTok ⟨d⟩ (ii * 512))
                      | none => if hs < durTok.size then ov.insert hs (some 0) else ov) ov) {}
                  let hostTok := fun (hs : Nat) => match overlay.get? hs with
                    | some t => t
                    | none => if hs < durTok.size then durTok[hs]! else some 0
                  let spc := m.cs / 512
                  -- sectors worth checking: everything with a non-default allowed set, plus every
                  -- sector of a cluster that is mapped in this crash image
                  let mut cand : Array Nat := allowed.fold (fun acc k _ => acc.push k) #[]
                  for li in [0:m.h.l1Size] do
                    let l1e := m.l1Entry li
                    if l1e ≠ 0 then
                      for lj in [0:m.l2Entries] do
                        let g := li * m.l2Entries + lj
                        if g * spc < nsec ∧ m.l2Entry g ≠ 0 then
                          for q in [0:spc] do
                            if ¬ allowed.contains (g * spc + q) then cand := cand.push (g * spc + q)
                  for s in cand do
                    if s ≥ nsec then continue
                    let e := m.l2Entry (s / spc)
                    let got : Option Nat :=
                      if e / 2^62 % 2 = 1 then none
                      else if e % 2 = 1 then some 0
                      else
                        let hoff := e % 2^56 / 512 * 512
                        if hoff = 0 then some (backSec s) else hostTok (hoff / 512 + s % spc)
                    match got with
                    | none => pure ()
                    | some tok =>
                      let ok := (allowed.getD s [0]).contains tok
                      if !ok then
                        stats := { stats with lost := stats.lost + 1 }
                        -- mechanism: whose value is it?
                        let owner : Option Nat := ops.toList.findSome? (fun op =>
                          match op with
                          | ["write", o, l, t] =>
                            if nat! t ≤ tok ∧ tok < nat! t + nat! l / 512 then some (nat! o / 512 + (tok - nat! t)) else none
                          | _ => none)
                        let cls : String :=
                          if tok = 0 then "zeros-instead-of-synced-data"
                          else match owner with
                            | some os => if os = s then "older-value-of-this-sector" else "data-of-another-guest-sector"
                            | none => "initial-or-unknown-data"
                        if stats.lost ≤ 6 then
                          out.putStrLn s!"lost case={h.id} op={k} req={rix - 1} class={cls} subset={sub} sector={s} got={tokName tok} allowed={(allowed.getD s [0]).map tokName}"
      if k < ops.size then
        let op := ops[k]!
        let bsz := 2^h.bsb
        match op with
        | ["write", off, len, tok] =>
          let off := nat! off; let len := nat! len; let tok := nat! tok
          let valid := len % bsz = 0 ∧ off % bsz = 0 ∧ off + len ≤ flat.vsize ∧ !h.rdonly
          if valid then
            flat := flat.write off (tokList tok (len / 512))
          prevFlushOk := false
        | ["discard", off, len] =>
          let off := nat! off; let len := nat! len
          if !h.rdonly then
            flat := flat.discard off len
          prevFlushOk := false
        | ["flush"] => prevFlushOk := true
        | ["shrink"] => prevFlushOk := true
        | ["fsync"] =>
          if prevFlushOk then
            -- sync point: everything completed so far is durable
            -- only sectors that hold data need an entry: the default allowed set is [0]
            synced := some (flat.sec.m.fold (fun a s v => if v ≠ 0 then a.insert s [v] else a) {})
          prevFlushOk := false
        | ["read", _, _] => pure ()
        | _ => prevFlushOk := false
    out.putStrLn s!"crash case={h.id} points={stats.points} states={stats.states} unsafe={stats.unsafeCnt} lost={stats.lost} maxpending={stats.maxPending}"

end Qv.Driver
