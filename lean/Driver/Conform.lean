import Qv.Spec.Image
/-
`conform` mode of the driver (C09): what the specification (`Qv.Spec.Image`, the
independent parser) says about the images of a conformance run — the mapping of
every guest cluster of a foreign image, and the verdict and header fields of every
image the library formatted.
-/
namespace Qv.Driver.Conform
open Qv.Spec

def kvOf (toks : List String) (k : String) : String :=
  match toks.find? (fun t => t.startsWith (k ++ "=")) with
  | some t => (t.drop (k.length + 1)).toString
  | none => ""

def runConform (dir : String) (lines : Array String) (out : IO.FS.Stream) : IO Unit := do
  for line in lines do
    let t := line.splitOn " "
    match t with
    | "case" :: rest =>
      if kvOf rest "p" == "0" then
        let id := kvOf rest "id"
        let bytes ← IO.FS.readBinFile s!"{dir}/c{id}.img0"
        match parseHdr bytes with
        | .error e => out.putStrLn s!"spec id={id} parse-error {e}"
        | .ok h =>
          let m : Img := { b := bytes, h := h }
          let v := judge m
          out.putStrLn s!"spec id={id} verdict {v.text}"
          for g in [0:m.guestClusters] do
            let (cls, off, clen, cp) := specMapping m g
            out.putStrLn s!"spec id={id} gmap {g} {cls} {off} {clen} {if cp then 1 else 0}"
    | "fmt" :: k :: rest =>
      if kvOf rest "res" == "ok" then
        let bytes ← IO.FS.readBinFile s!"{dir}/f{k}.img"
        match parseHdr bytes with
        | .error e => out.putStrLn s!"fmtspec {k} parse-error {e}"
        | .ok h =>
          let m : Img := { b := bytes, h := h }
          let v := judge m
          let cs := m.cs
          let per := cs * (cs / 8)
          out.putStrLn s!"fmtspec {k} verdict={if v.valid then "ok" else "fail"} size={h.size} cb={h.cb} ro={h.ro} ver={h.version} l1={h.l1Size} l1need={(h.size + per - 1) / per} rtcl={h.rtClusters} detail={v.text.replace " " "_"}"
    | _ => pure ()

end Qv.Driver.Conform
