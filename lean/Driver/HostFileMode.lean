import Qv.Base.Text
import Qv.Spec.HostFile
/-
`hostfile` mode of the driver (C19): executes backend request sequences on the
reference host-file model `Qv.Spec.HostFile` and prints the result lines the
real backends print (src/backend.rs).
-/
namespace Qv.Driver
open Qv.Text Qv.Spec

def fnv64 (l : List UInt8) : UInt64 :=
  l.foldl (fun h b => (h ^^^ b.toUInt64) * 0x100000001b3) 0xcbf29ce484222325

def patternBytes (len seed : Nat) : List UInt8 :=
  (List.range len).map (fun i => UInt8.ofNat ((seed + i % 251) % 256))

partial def runHostFile (lines : Array String) (out : IO.FS.Stream) : IO Unit := do
  let mut f := HostFile.empty
  let mut skip := false
  let mut idx := 0
  for line in lines do
    match line.splitOn " " with
    | "case" :: id :: rest =>
      f := HostFile.empty
      idx := 0
      -- multi-MiB sequences are compared between the real backends only
      skip := rest.contains "large=1"
      out.putStrLn s!"case {id}"
    | ["end"] =>
      if !skip then
        let b := f.bytes
        out.putStrLn s!"model {idx} final len={f.len} fnv={toHex (fnv64 b).toNat}"
      out.putStrLn "end"
    | ["R", off, len] =>
      if !skip then
        let d := f.read (off.toNat?.getD 0) (len.toNat?.getD 0)
        out.putStrLn s!"model {idx} R n={d.length} fnv={toHex (fnv64 d).toNat}"
      idx := idx + 1
    | ["W", off, len, seed] =>
      if !skip then
        f := f.write (off.toNat?.getD 0) (patternBytes (len.toNat?.getD 0) (seed.toNat?.getD 0))
        out.putStrLn s!"model {idx} W ok"
      idx := idx + 1
    | ["Z", off, len] =>
      if !skip then
        let n := len.toNat?.getD 0
        -- fallocate(2) rejects a zero length
        if n = 0 then out.putStrLn s!"model {idx} Z err"
        else
          f := f.punch (off.toNat?.getD 0) n
          out.putStrLn s!"model {idx} Z ok"
      idx := idx + 1
    | ["S"] =>
      if !skip then
        f := f.sync
        out.putStrLn s!"model {idx} S ok"
      idx := idx + 1
    | _ => pure ()

end Qv.Driver
