import Qv.Model.LruCache
/-
`lru` mode of the driver: replays the operation lines the harness recorded on
the real `AsyncLruCache` (harness/src/lru.rs) on `Qv.Model.Lru` and prints the
same lines with the model's results.  The victims of a `commit` are taken from
the implementation's line and checked with `legalVictims`.
-/
namespace Qv.Driver.LruMode
open Qv.Model.Lru

def natOf (s : String) : Nat := s.toNat?.getD 0

def rowsText (m : Map) : String :=
  if m.isEmpty then "-" else
  let rows := m.toArray.qsort (fun a b => a.1 < b.1)
  ",".intercalate (rows.toList.map (fun p =>
    s!"{p.1}:{p.2.id}:{p.2.lru}:{if p.2.dirty then 1 else 0}:{p.2.refs}"))

def pairsText (l : List (Nat × Nat)) : String :=
  if l.isEmpty then "-" else
  let rows := l.toArray.qsort (fun a b => a.1 < b.1 || (a.1 == b.1 && a.2 < b.2))
  ",".intercalate (rows.toList.map (fun p => s!"{p.1}:{p.2}"))

def stateText (c : Cache) : String := s!"state rmap={rowsText c.rmap} wmap={rowsText c.wmap}"

def kv (t : String) (k : String) : String :=
  if t.startsWith (k ++ "=") then (t.drop (k.length + 1)).toString else ""

/-- one operation line of the implementation -> (new cache, the model's line) -/
def step (c : Cache) (line : String) : Cache × String :=
  match line.splitOn " " with
  | "put" :: k :: _ =>
    let (c', i, new) := put c (natOf k)
    (c', s!"put {k} -> id={i} new={if new then 1 else 0}")
  | "commit" :: vs :: _ =>
    let v := kv vs "victims"
    let victims := if v == "-" then [] else (v.splitOn ",").map natOf
    if !legalVictims c victims then (c, s!"commit victims={v} -> illegal-victims") else
    let (c', d) := commit c victims
    (c', s!"commit victims={v} -> dirty={pairsText d}")
  | "get" :: k :: _ =>
    let (c', r) := get c (natOf k)
    (c', s!"get {k} -> {match r with | some i => toString i | none => "-"}")
  | ["release", i] => (release c (natOf i), line)
  | ["setdirty", i, b] => (setDirty c (natOf i) (b == "1"), line)
  | ["shrink"] => (shrink c, line)
  | "dirties" :: s :: e :: _ =>
    let (c', d) := dirtyEntries c (natOf s) (natOf e)
    (c', s!"dirties {s} {e} -> {pairsText d}")
  | ["rmw", k] => (removeFromWmap c (natOf k), line)
  | "empty" :: _ => (c, s!"empty -> {if isEmpty c then 1 else 0}")
  | _ => (c, "bad-op " ++ line)

def runLru (lines : Array String) (out : IO.FS.Stream) : IO Unit := do
  let mut c : Cache := Cache.new 0
  for line in lines do
    match line.splitOn " " with
    | ["case", _, lim] =>
      c := Cache.new (natOf (kv lim "limit"))
      out.putStrLn line
    | "state" :: _ => out.putStrLn (stateText c)
    | ["end"] => out.putStrLn "end"
    | _ =>
      let (c', l) := step c line
      c := c'
      out.putStrLn l

end Qv.Driver.LruMode
