import Qv.Model.UsedSet
import Qv.Base.Text
import Qv.Codec.L2
import Qv.Codec.Refcount
import Qv.Codec.Info
import Qv.Model.FreeRange
import Qv.Codec.Header
/-
`pure` mode of the driver: answers the codec request lines of the harness
(src/pure.rs) from the model.  Response text must be byte-identical to the
implementation's.
-/
namespace Qv.Driver
open Qv.Text Qv.Codec

def nat! (s : String) : Nat := s.toNat?.getD 0
def hex! (s : String) : Nat := (parseHex s).getD 0

def parseCache (s : String) : Option (Nat × Nat) :=
  if s == "-" then none else
  match s.splitOn "," with
  | [a, b] => some (nat! a, nat! b)
  | _ => none

structure GeoArgs where
  hdr : HdrGeo
  params : Params

def parseGeo (t : List String) : Option GeoArgs :=
  match t with
  | [cb, ro, size, bsb, l2, rb, rdonly, backing, hasback] =>
    some { hdr := { clusterBits := nat! cb, refcountOrder := nat! ro, size := nat! size,
                    hasBackingName := hasback == "1" },
           params := { bsBits := nat! bsb, rbCache := parseCache rb, l2Cache := parseCache l2,
                       readOnly := rdonly == "1", backing := backing == "1" } }
  | _ => none

def plainInfo (cb : Nat) (hasBack : Bool) : Info :=
  match Info.new { clusterBits := cb, refcountOrder := 4, size := 2^30, hasBackingName := hasBack }
      { bsBits := 9, rbCache := some (9, 1024), l2Cache := some (9, 1024), readOnly := false, backing := false } with
  | .ok i => i
  | _ => default

def respL2 (cb : Nat) (hb : Bool) (gcoff : Nat) (e : Nat) : String :=
  let ent : E64 := BitVec.ofNat 64 e
  let info := plainInfo cb hb
  let m := L2.intoMapping cb hb (Split.clusterOffset info gcoff) ent
  let back := match L2.fromMapping cb m with
    | .ok v => toHex v.toNat
    | _ => "panic"
  s!"l2 src={m.source.toString} off={optNat m.clusterOffset} len={optNat m.compressedLength} cp={b01 m.copied} alloc={optPair (L2.allocation cb ent)} cr={optPair (L2.compressedRange cb ent)} rsv={toHex (L2.reservedBits ent).toNat} try={b01 (L2.tryFromPlain cb ent)} back={back} plain={optNat (L2.plainOffset m 0)}"

def respL1 (cb e : Nat) : String :=
  let ent : E64 := BitVec.ofNat 64 e
  s!"l1 off={(L1.l2Offset ent).toNat} cp={b01 (L1.isCopied ent)} z={b01 (L1.isZero ent)} rsv={toHex (L1.reservedBits ent).toNat} try={b01 (L1.tryFromPlain cb ent)}"

def respRt (cb e : Nat) : String :=
  let ent : E64 := BitVec.ofNat 64 e
  s!"rt off={(RT.refblockOffset ent).toNat} z={b01 (RT.isZero ent)} rsv={toHex (RT.reservedBits ent).toNat} try={b01 (RT.tryFromPlain cb ent)}"

def respRc (order : Nat) (init : Array UInt8) (op : String) (i v : Nat) : String :=
  let fin (res : String) (val : Option Nat) (b : Array UInt8) :=
    s!"rc res={res} val={optNat val} bytes={hexBytes b}"
  match op with
  | "get" => match Rc.get order init i with
    | .ok x => fin "ok" (some x) init
    | .err _ => fin "err" none init
    | .panic _ => fin "panic" none init
  | "set" => match Rc.set order init i v with   -- `Table::set` unwraps `__set`
    | .ok b => fin "ok" none b
    | _ => fin "panic" none init
  | "inc" => match Rc.increment order init i with
    | .ok b => fin "ok" none b
    | .err _ => fin "err" none init
    | .panic _ => fin "panic" none init
  | "dec" => match Rc.decrement order init i with
    | .ok b => fin "ok" none b
    | .err _ => fin "err" none init
    | .panic _ => fin "panic" none init
  | _ => "rc bad-op"

def respRcFree (order : Nat) (init : Array UInt8) (start count : Nat) : String :=
  let get := fun i => match Rc.get order init i with | .ok v => v | _ => 0
  let entries := Rc.entries order init
  let range := match Model.getFreeRange get entries start count with
    | .ok r => optPair r
    | _ => "panic"
  s!"rcfree range={range} tail={optPair (Model.getTailFreeRange get entries)} entries={entries}"

def respGeo (g : GeoArgs) (off : Nat) : String :=
  match Info.new g.hdr g.params with
  | .err _ => "geo err"
  | .panic _ => "geo panic"
  | .ok i =>
    let l1 := Split.l1Index i off
    -- `l1_index` does `try_into::<usize>().unwrap()`: never fails on 64-bit
    s!"geo ok block_size_shift={i.bsb} cluster_shift={i.cb} l2_index_shift={i.l2IndexShift} l2_slice_index_shift={i.l2SliceIndexShift} l2_slice_bits={i.l2SliceBits} refcount_order={i.ro} rb_slice_bits={i.rbSliceBits} rb_index_shift={i.rbIndexShift} rb_slice_index_shift={i.rbSliceIndexShift} l2_slice_entries={i.l2SliceEntries} l2_cache_cnt={i.l2CacheCnt} rb_cache_cnt={i.rbCacheCnt} virtual_size={i.vsize} read_only={b01 i.readOnly} has_back_file={b01 i.hasBack} back_file={b01 i.isBack}" ++
    s!" l1={l1} l2={Split.l2Index i off} si={Split.l2SliceIndex i off} key={Split.l2SliceKey i off} oit={Split.l2SliceOffInTable i off} ico={Split.inClusterOffset i off} co={Split.clusterOffset i off}" ++
    s!" rti={Host.rtIndex i off} rbi={Host.rbIndex i off} rsi={Host.rbSliceIndex i off} rkey={Host.rbSliceKey i off} rss={Host.rbSliceHostStart i off} rse={Host.rbSliceHostEnd i off} rbs={Host.rbHostStart i off} rbe={Host.rbHostEnd i off} roit={Host.rbSliceOffInTable i off}" ++
    s!" rbe_n={i.rbEntries} l2e_n={i.l2Entries} rbse_n={i.rbSliceEntries} maxl1={i.maxL1Entries}"

def hexL (l : List UInt8) : String := hexBytes l.toArray

def respHdr (b : Array UInt8) : String :=
  match Hdr.parse b with
  | .panic _ => "hdr panic"
  | .err _ => "hdr err"
  | .ok h =>
    let ser := if Hdr.unmodelledSer h then "unmodelled" else
      match Hdr.serialize h with
      | .ok v => hexL v
      | .err _ => "err"
      | .panic _ => "panic"
    let o := fun (x : Option (List UInt8)) => match x with | some l => hexL l | none => "-"
    s!"hdr ok ver={h.raw.version} cb={h.raw.clusterBits} size={h.raw.size} crypt={h.raw.crypt} l1off={h.raw.l1Off} l1n={h.raw.l1Size} rtoff={h.raw.rtOff} rtc={h.raw.rtClusters} nsnap={h.raw.nbSnap} snapoff={h.raw.snapOff} ro={h.raw.refcountOrder} comp={h.raw.compression} back={o h.backing} bfmt={o (Hdr.backingFormat h)} ser={ser}"

def respondPure (line : String) : String :=
  match line.splitOn " " with
  | ["l2", cb, hb, g, e] => respL2 (nat! cb) (hb == "1") (nat! g) (hex! e)
  | ["hdr", b] => respHdr (unhex b)
  | ["hdr"] => respHdr #[]
  | ["l1", cb, e] => respL1 (nat! cb) (hex! e)
  | ["rt", cb, e] => respRt (nat! cb) (hex! e)
  | ["rc", order, init, op, i, v] => respRc (nat! order) (unhex init) op (nat! i) (nat! v)
  | ["rcfree", order, init, s, c] => respRcFree (nat! order) (unhex init) (nat! s) (nat! c)
  | ["uset", nums, qs] =>
    let parse := fun (t : String) => if t == "-" then [] else (t.splitOn ",").filterMap (·.toNat?)
    let rs := Qv.Model.UsedSet.sortedS (Qv.Model.UsedSet.build (parse nums))
    let rtxt := if rs.isEmpty then "-" else ",".intercalate (rs.map (fun r => s!"{r.1}-{r.2}"))
    let used := String.ofList ((parse qs).map (fun q => if Qv.Model.UsedSet.inUse rs q then '1' else '0'))
    s!"uset ranges={rtxt} used={used}"
  | "geo" :: rest =>
    match parseGeo (rest.take 9), rest.drop 9 with
    | some g, [off] => respGeo g (nat! off)
    | _, _ => "geo bad-request"
  | _ => "unknown-request"

end Qv.Driver
