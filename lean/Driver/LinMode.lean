import Driver.Seq
import Qv.Spec.Lin
/-
`lin` mode of the driver (C06, C07, C18): judges the histories of concurrent
runs (src/conc.rs): per-block linearizability, final content, content after
flush + reopen, content when need_flush is false, progress.
-/
namespace Qv.Driver
open Qv.Text Qv.Spec Qv.Spec.Lin

structure CTask where
  op : List String
  inv : Nat
  resp : Nat
  res : String
  buf : Array Nat

def kvOf (toks : List String) (k : String) : String :=
  match toks.find? (fun t => t.startsWith (k ++ "=")) with
  | some t => (t.drop (k.length + 1)).toString
  | none => ""

def parseTask (t : List String) : CTask :=
  -- task <i> <op words…> inv= resp= after= res= [buf=]
  let words := t.drop 2
  let op := words.takeWhile (fun w => !(w.startsWith "inv="))
  { op := op, inv := nat! (kvOf words "inv"), resp := nat! (kvOf words "resp"),
    res := kvOf words "res", buf := parseRle ((kvOf words "buf").replace "," " ") }

/-- events of one sector from the tasks of a run; `final` adds reads that start
    after everything else -/
def sectorEvents (tasks : Array CTask) (s : Nat) (cs : Nat) (vsize : Nat) (finals : List Nat) (tmax : Nat) : List Ev :=
  let evs := tasks.toList.filterMap (fun t =>
    if !(t.res.startsWith "ok") then none else
    match t.op with
    | ["write", off, len, tok] =>
      let off := nat! off; let len := nat! len
      if off / 512 ≤ s ∧ s < (off + len) / 512 then
        some { kind := .w, val := nat! tok + (s - off / 512), inv := t.inv, resp := t.resp } else none
    | ["read", off, _] =>
      let off := nat! off
      let i := s - off / 512
      if off / 512 ≤ s ∧ i < t.buf.size then
        some { kind := .r, val := t.buf[i]!, inv := t.inv, resp := t.resp } else none
    | ["discard", off, len] =>
      let off := nat! off; let len := nat! len
      let e := min (off + len) vsize
      let start := (off + cs - 1) / cs * cs
      let stop := e / cs * cs
      if start ≤ s * 512 ∧ s * 512 < stop then
        some { kind := .d, val := 0, inv := t.inv, resp := t.resp } else none
    | _ => none)
  evs ++ (finals.zipIdx.map (fun (v, i) => { kind := .r, val := v, inv := tmax + 1 + 2 * i, resp := tmax + 2 + 2 * i }))

partial def runLin (dir : String) (lines : Array String) (out : IO.FS.Stream) : IO Unit := do
  let mut i := 0
  while i < lines.size do
    let line := lines[i]!
    if !line.startsWith "case " then
      i := i + 1
      continue
    let h := parseCaseHdr line
    let run := kvOf (line.splitOn " ") "run"
    let mut tasks : Array CTask := #[]
    let mut deadlock := false
    let mut livelock := false
    let mut panicked := false
    let mut nf : Option Bool := none
    let mut quiet : Option (Array Nat) := none
    let mut live : Option (Array Nat) := none
    let mut reopen : Option (Array Nat) := none
    let mut durable : Option (Array Nat) := none
    let mut flushOk := true
    let mut nfDirty : Nat := 0
    let mut bnfBad : Nat := 0
    let mut uncovBad : Nat := 0
    let mut j := i + 1
    while j < lines.size && lines[j]! != "end" do
      let t := (lines[j]!).splitOn " "
      match t with
      | "task" :: _ => tasks := tasks.push (parseTask t)
      | "sched" :: rest =>
        if kvOf rest "deadlock" == "1" then deadlock := true
        if kvOf rest "livelock" == "1" then livelock := true
        if kvOf rest "panic" == "1" then panicked := true
      | ["nf", v] => nf := some (v == "1")
      | ["nfdirty", v] => nfDirty := v.toNat?.getD 0
      | ["uncov", _, _, c] => if c != "0" then uncovBad := uncovBad + 1
      | ["bnf", _, v, dc] => if v == "0" && dc != "0" then bnfBad := bnfBad + 1
      | ["quiet", v] => quiet := some (parseRle (v.replace "," " "))
      | ["live", v] => live := some (parseRle (v.replace "," " "))
      | ["reopen", v] => reopen := some (parseRle (v.replace "," " "))
      | ["durable", v] => durable := some (parseRle (v.replace "," " "))
      | ["flush", v] => flushOk := v == "ok"
      | _ => pure ()
      j := j + 1
    i := j + 1
    -- initial content
    let mut initSec : Array Nat := #[]
    if h.img != "format" then
      let p := s!"{dir}/case{h.id}.flat"
      if ← System.FilePath.pathExists p then
        let fl ← IO.FS.lines p
        initSec := parseRle (fl.getD 0 "")
    let cs := 2^h.cb
    let nsec := h.size / 512
    let tmax := tasks.foldl (fun m t => if t.resp < 1000000000 then max m t.resp else m) 0
    -- C07
    if deadlock then out.putStrLn s!"viol run={run} class=deadlock"
    if livelock then out.putStrLn s!"viol run={run} class=livelock"
    if panicked then out.putStrLn s!"viol run={run} class=panic"
    for t in tasks do
      if t.res == "err" then
        -- all generated arguments are valid and the backend never fails: Err is spurious
        out.putStrLn s!"viol run={run} class=spurious-error op={" ".intercalate t.op}"
      if t.op.headD "" == "read" ∧ t.res.startsWith "ok" then
        let want := nat! ((t.op.getD 2 "0"))
        if t.res != s!"ok_n={want}" then out.putStrLn s!"viol run={run} class=short-read op={" ".intercalate t.op} res={t.res}"
    if deadlock ∨ livelock ∨ panicked then
      out.putStrLn s!"lin run={run} tasks={tasks.size} sectors=0 verdict=stuck"
      continue
    -- C06: per-sector linearizability, final content, flush + reopen content
    let mut bad := 0
    let mut checked := 0
    let mut cache : Std.HashMap String Bool := {}
    for s in [0:nsec] do
      let init := if s < initSec.size then initSec[s]! else 0
      let finals : List Nat :=
        (match live with | some a => if s < a.size then [a[s]!] else [] | none => []) ++
        (match reopen with | some a => if s < a.size then [a[s]!] else [] | none => [])
      let evs := sectorEvents tasks s cs h.size finals tmax
      -- untouched sectors must still hold the initial value
      if evs.all (fun e => e.kind == .r) then
        if evs.any (fun e => e.val ≠ init) then
          bad := bad + 1
          if bad ≤ 3 then out.putStrLn s!"viol run={run} class=frame sector={s} init={tokName init} got={evs.map (fun e => tokName e.val)}"
        continue
      checked := checked + 1
      let key := s!"{init}|{evs.map (fun e => (e.kind == .w, e.kind == .r, e.val - (if e.kind == .d then 0 else 0), e.inv, e.resp))}"
      let ok ← match cache.get? key with
        | some v => pure v
        | none =>
          let v := linearizable init evs
          cache := cache.insert key v
          pure v
      if !ok then
        bad := bad + 1
        if bad ≤ 3 then
          out.putStrLn s!"viol run={run} class=not-linearizable sector={s} init={tokName init} events={evs.map (fun e => (reprStr e.kind, tokName e.val, e.inv, e.resp))}"
    -- C18: need_flush = false at a quiescent point ⇒ the file alone reads like the live device
    match nf, quiet, live with
    | some false, some q, some l =>
      if q != l then
        let first := (List.range (min q.size l.size)).find? (fun k => q[k]! ≠ l[k]!)
        out.putStrLn s!"viol run={run} class=needflush-false-but-file-differs first-sector={first}"
    | _, _, _ => pure ()
    -- ... and nothing is dirty in the caches or the top tables
    if (nf == some false && nfDirty > 0) || bnfBad > 0 then
      out.putStrLn s!"viol run={run} class=needflush-false-but-dirty dirty={nfDirty} batches={bnfBad}"
    -- C05 under concurrency: what flush_meta + fsync_range guarantee to survive a crash reads like the file
    match durable, reopen with
    | some dv, some rv =>
      if dv != rv then
        let first := (List.range (min dv.size rv.size)).find? (fun k => dv[k]! ≠ rv[k]!)
        out.putStrLn s!"viol run={run} class=synced-data-not-durable first-sector={first}"
    | _, _ => pure ()
    if uncovBad > 0 then out.putStrLn s!"viol run={run} class=flush-ok-but-unsynced calls={uncovBad}"
    if !flushOk then out.putStrLn s!"viol run={run} class=final-flush-error"
    out.putStrLn s!"lin run={run} tasks={tasks.size} sectors={checked} verdict={if bad == 0 then "ok" else "bad"}"

end Qv.Driver
