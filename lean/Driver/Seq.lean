import Qv.Base.Text
import Qv.Spec.Flat
import Qv.Model.Dev
import Qv.Model.Format
import Qv.Model.Open
import Driver.Pure
/-
`seq` mode of the driver: executes the `op` lines of a sequential case on the
model (`Qv.Model.Dev`) and on the flat reference disk (`Qv.Spec.Flat`, the
oracle) and prints the same observation lines as the harness (src/seq.rs).
-/
namespace Qv.Driver
open Qv.Text Qv.Codec Qv.Model Qv.Spec

/-- content left undefined by an operation that returned `Err` (C17 oracle) -/
def unknownTok : Nat := 0xFFFFFFFFFFFFFFFF

/-- name of a token in the run-length text -/
def tokName (t : Nat) : String :=
  if t = 0 then "z" else if t = poison then "p" else if t = unknownTok then "?" else "t" ++ toHex t

/-- identical to `rle_tokens` of the harness -/
partial def rleTokens (toks : Array Nat) : String := Id.run do
  let mut out := ""
  let mut i := 0
  while i < toks.size do
    let t := toks[i]!
    let mut j := i + 1
    while j < toks.size && toks[j]! == t do j := j + 1
    let eq := j - i
    let mut k := i + 1
    while k < toks.size && toks[k]! == t + (k - i) do k := k + 1
    let seq := k - i
    if !out.isEmpty then out := out ++ " "
    if seq > eq && seq > 1 then
      out := out ++ s!"{tokName t}+{seq}"
      i := i + seq
    else if eq > 1 then
      out := out ++ s!"{tokName t}*{eq}"
      i := i + eq
    else
      out := out ++ tokName t
      i := i + 1
  return out

/-- identical to `sparse_rle` of the harness -/
partial def sparseRle (items : Array (Nat × Nat)) (step : Nat) (hexv : Bool) : String := Id.run do
  let v := items.filter (fun p => p.2 != 0)
  let fv := fun (x : Nat) => if hexv then toHex x else toString x
  let mut out := ""
  let mut i := 0
  while i < v.size do
    let (k0, v0) := v[i]!
    let mut j := i + 1
    while j < v.size && (v[j]!).1 == k0 + (j - i) && (v[j]!).2 == v0 do j := j + 1
    let mut m := i + 1
    while step != 0 && m < v.size && (v[m]!).1 == k0 + (m - i) && (v[m]!).2 == (v0 + step * (m - i)) % 2^64 do m := m + 1
    if !out.isEmpty then out := out ++ " "
    if m - i > j - i && m - i > 1 then
      out := out ++ s!"{k0}-{(v[m-1]!).1}:{fv v0}+"
      i := m
    else if j - i > 1 then
      out := out ++ s!"{k0}-{(v[j-1]!).1}:{fv v0}"
      i := j
    else
      out := out ++ s!"{k0}:{fv v0}"
      i := i + 1
  if out.isEmpty then return "-" else return out

structure CaseHdr where
  id : Nat
  cb : Nat
  ro : Nat
  size : Nat
  bsb : Nat
  l2 : Option (Nat × Nat)
  rb : Option (Nat × Nat)
  rdonly : Bool
  img : String

def kvGet (kvs : List (String × String)) (k : String) : String :=
  match kvs.find? (fun p => p.1 == k) with
  | some p => p.2
  | none => ""

def parseCaseHdr (line : String) : CaseHdr :=
  let kvs := (line.splitOn " ").filterMap (fun t =>
    match t.splitOn "=" with
    | [k, v] => some (k, v)
    | _ => none)
  { id := nat! (kvGet kvs "id"), cb := nat! (kvGet kvs "cb"), ro := nat! (kvGet kvs "ro"),
    size := nat! (kvGet kvs "size"), bsb := nat! (kvGet kvs "bsb"),
    l2 := parseCache (kvGet kvs "l2"), rb := parseCache (kvGet kvs "rb"),
    rdonly := kvGet kvs "rdonly" == "1", img := kvGet kvs "img" }

def outName {α} : Outcome α → String
  | .ok _ => "ok" | .err _ => "err" | .panic _ => "panic"

/-- state lines (`st`, `l1`, `map`, `rt`, `rc`) -/
def stateLines (k : Nat) (d : Dev) : List String :=
  let i := d.info
  let cs := i.clusterSize
  let nguest := (i.vsize + cs - 1) / cs
  let map := (Array.range nguest).map (fun g => (g, (d.l2Entry (g * cs)).toNat))
  let rbe := i.rbEntries
  let rtItems := (Array.range d.rtLen).map (fun j => (j, (d.rt.get j).toNat))
  let lastRt := rtItems.foldl (fun acc p => if (p.2 % 2^64) / 512 != 0 then p.1 + 1 else acc) 0
  let maxc := min (lastRt * rbe) 65536
  let rc := (Array.range maxc).map (fun c => (c, d.rc.get c))
  let l1 := (Array.range d.l1Len).map (fun j => (j, (d.l1.get j).toNat))
  let newd := (d.newData.toArray.qsort (· < ·)).toList.eraseDups
  let news := if newd.isEmpty then "-" else ",".intercalate (newd.map toString)
  [ s!"{k} st hint={d.hint} nf={b01 d.needFlush} new={news} hl1={d.hdrL1Off},{d.hdrL1Entries} hrt={d.hdrRtOff},{d.hdrRtClusters} l1he={d.l1HdrEntries}",
    s!"{k} l1 {sparseRle l1 0 true}",
    s!"{k} map {sparseRle map cs true}",
    s!"{k} rt {sparseRle rtItems (rbe * cs) true}",
    s!"{k} rc {sparseRle rc 0 false}" ]

/-- what the file alone shows after a flush (`fhdr`, `fmap`, `frc`) -/
def fileLines (k : Nat) (d : Dev) : List String :=
  let i := d.info
  let cs := i.clusterSize
  let nguest := (i.vsize + cs - 1) / cs
  let l2e := i.l2Entries
  let map := (Array.range nguest).map (fun g =>
    (g, if g / l2e < d.hdrL1Entries then (d.l2Entry (g * cs)).toNat else 0))
  let rbe := i.rbEntries
  let rtItems := (Array.range d.rtLen).map (fun j => (j, (d.rt.get j).toNat))
  let lastRt := rtItems.foldl (fun acc p => if p.2 != 0 then p.1 + 1 else acc) 0
  let maxc := min (lastRt * rbe) 65536
  let rc := (Array.range maxc).map (fun c => (c, d.rc.get c))
  [ s!"{k} fhdr l1={d.hdrL1Off},{d.hdrL1Entries} rt={d.hdrRtOff},{d.hdrRtClusters}",
    s!"{k} fmap {sparseRle map cs true}",
    s!"{k} frc {sparseRle rc 0 false}" ]

def flatAll (f : Flat) (bs : Nat) : String :=
  let total := f.vsize / bs * bs
  rleTokens ((Array.range (total / 512)).map (fun s => f.sec.get s))

structure SeqState where
  dev : Dev
  flat : Flat
  params : Params
  dead : Bool := false       -- after a panic the case stops
  /-- fault runs: clusters touched by a write that returned Err (it may or may
      not have allocated them) -/
  maybeOwn : List Nat := []

def tokList (base n : Nat) : List Nat := (List.range n).map (fun i => base + i)

/-- execute one op line; returns new state and output lines -/
def stepOp (st : SeqState) (k : Nat) (t : List String) (implRes : Option String := none) : SeqState × List String :=
  let d := st.dev
  let f := st.flat
  let bs := d.info.bs
  match t with
  | ["write", off, len, tok] =>
    let off := nat! off; let len := nat! len; let tok := nat! tok
    let toks := tokList tok (len / 512)
    let (d', r) := writeAt off len toks d
    -- oracle: C13 validity rules, then the flat disk
    let valid := len % bs = 0 ∧ off % bs = 0 ∧ off + len ≤ f.vsize ∧ ¬ d.info.readOnly
    -- fault runs: a write that returned Err leaves its range undefined
    let f' := match implRes with
      | some "ok" => if valid then f.write off toks else f
      | some _ =>
        -- content undefined; whether the clusters got their own allocation is undefined too
        if valid then { f.write off (List.replicate (len / 512) unknownTok) with own := f.own } else f
      | none => if valid then f.write off toks else f
    let maybe' := match implRes with
      | some "ok" => st.maybeOwn
      | some _ => if valid ∧ len > 0 then
          st.maybeOwn ++ (List.range ((off + len - 1) / f.cs - off / f.cs + 1)).map (· + off / f.cs) else st.maybeOwn
      | none => st.maybeOwn
    let st' := { st with dev := d', flat := f', dead := r.isPanic, maybeOwn := maybe' }
    (st', [s!"{k} res {outName r}", s!"{k} flatres {if valid then "ok" else "err"}"] ++
      (if r.isPanic then [] else stateLines k d'))
  | ["read", off, len] =>
    let off := nat! off; let len := nat! len
    let r := readAt d off len
    let fl : List String :=
      if off ≥ f.vsize then [s!"{k} flatres err"]
      else if len = 0 then [s!"{k} flatres ok n=0", s!"{k} flat "]
      else if len % bs ≠ 0 ∨ off % bs ≠ 0 then [s!"{k} flatres err"]
      else
        let n := if off + len > f.vsize then (f.vsize - off) / bs * bs else len
        [s!"{k} flatres ok n={n}", s!"{k} flat {rleTokens (f.read off (n / 512)).toArray}"]
    let ml : List String := match r with
      | .ok (n, toks) => [s!"{k} res ok n={n}", s!"{k} buf {rleTokens (toks.take (n / 512)).toArray}"]
      | .err _ => [s!"{k} res err"]
      | .panic _ => [s!"{k} res panic"]
    ({ st with dead := r.isPanic }, ml ++ fl ++ (if r.isPanic then [] else stateLines k d))
  | ["discard", off, len] =>
    let off := nat! off; let len := nat! len
    let (d', r) := discard off len d
    let valid := ¬ d.info.readOnly
    let f' := match implRes with
      | some "ok" =>
        if valid then
          let after := f.discard off len
          -- clusters a failed write may have allocated: a discard may or may not zero them
          let probe := ({ f with own := st.maybeOwn.foldl (fun o g => o.set g true) f.own }).discard off len
          { after with sec := (List.range (f.vsize / 512)).foldl (fun acc s =>
              if probe.sec.get s ≠ after.sec.get s then acc.set s unknownTok else acc) after.sec }
        else f
      | some _ =>
        -- a failed discard may have zeroed any whole cluster of its range (also clusters a
        -- failed write may have allocated before)
        if valid then
          let after := ({ f with own := st.maybeOwn.foldl (fun o g => o.set g true) f.own }).discard off len
          { f with sec := (List.range (f.vsize / 512)).foldl (fun acc s =>
              if after.sec.get s ≠ f.sec.get s then acc.set s unknownTok else acc) f.sec }
        else f
      | none => if valid then f.discard off len else f
    ({ st with dev := d', flat := f', dead := r.isPanic },
      [s!"{k} res {outName r}", s!"{k} flatres {if valid then "ok" else "err"}"] ++
      (if r.isPanic then [] else stateLines k d'))
  | ["flush"] =>
    let (d', r) := flushMeta d
    ({ st with dev := d', dead := r.isPanic },
      [s!"{k} res {outName r}"] ++ fileLines k d' ++ [s!"{k} flatall {flatAll f 512}"] ++ stateLines k d')
  | ["shrink"] =>
    let (d', r) := flushMeta d
    ({ st with dev := d', dead := r.isPanic },
      [s!"{k} res {outName r}"] ++ fileLines k d' ++ [s!"{k} flatall {flatAll f 512}"] ++ stateLines k d')
  | ["fsync"] => (st, [s!"{k} res ok"] ++ stateLines k d)
  | ["reopen", bsb, l2, rb] =>
    -- fault runs: a failed flush leaves the old device in place
    if implRes.isSome ∧ implRes ≠ some "ok" then (st, [s!"{k} res err"]) else
    let (d1, _) := flushMeta d
    let p : Params := { bsBits := nat! bsb, rbCache := parseCache rb, l2Cache := parseCache l2,
                        readOnly := st.params.readOnly, backing := false }
    match reopenDev d1 p with
    | .ok d2 =>
      ({ st with dev := d2, params := p },
        [s!"{k} res ok"] ++ fileLines k d1 ++ [s!"{k} flatall {flatAll f 512}"] ++ stateLines k d2)
    | .err _ => ({ st with dead := true }, [s!"{k} res ok"] ++ fileLines k d1 ++ [s!"{k} flatall {flatAll f 512}", s!"{k} reopen-open err"])
    | .panic _ => ({ st with dead := true }, [s!"{k} res ok"] ++ fileLines k d1 ++ [s!"{k} flatall {flatAll f 512}", s!"{k} reopen-open panic"])
  | _ => (st, [s!"{k} bad-op"])

/-- the final block the harness appends after the last op -/
def finalLines (st : SeqState) (k : Nat) : List String :=
  let d := st.dev
  let (d', _) := if d.info.readOnly then (d, Outcome.ok ()) else flushMeta d
  [s!"{k} res ok"] ++ fileLines k d' ++ [s!"{k} flatall {flatAll st.flat 512}"] ++ stateLines k d'

/-- inverse of `rleTokens` (`m` = mixed sentinel) -/
def parseRle (s : String) : Array Nat := Id.run do
  let mut out : Array Nat := #[]
  for t in s.splitOn " " do
    if t.isEmpty then continue
    let (name, kind, n) :=
      match t.splitOn "*" with
      | [a, b] => (a, 1, nat! b)
      | _ => match t.splitOn "+" with
        | [a, b] => (a, 2, nat! b)
        | _ => (t, 0, 1)
    let base := if name == "z" then 0 else if name == "p" then poison else if name == "m" then mixedTok
                else hex! (name.drop 1).toString
    for i in [0:n] do
      out := out.push (if kind == 2 then base + i else base)
  return out

def loadComp (lines : Array String) (spc : Nat) (which : String) : FMap (FMap Nat) :=
  lines.foldl (fun acc l =>
    match l.splitOn " " with
    | [w, off, tok] =>
      if w == which then
        acc.set (nat! off) ((List.range spc).foldl (fun t k => t.set k (nat! tok + k)) (FMap.empty 0))
      else acc
    | _ => acc) (FMap.empty (FMap.empty 0))

/-- a case over builder images: state from the image files and sidecars -/
def initBuilt (dir : String) (h : CaseHdr) : IO (Outcome SeqState) := do
  let p : Params := { bsBits := h.bsb, rbCache := h.rb, l2Cache := h.l2, readOnly := h.rdonly, backing := false }
  let top ← IO.FS.readBinFile s!"{dir}/case{h.id}.img0"
  let compLines ← IO.FS.lines s!"{dir}/case{h.id}.comp"
  let flatLines ← IO.FS.lines s!"{dir}/case{h.id}.flat"
  match Spec.parseHdr top with
  | .error _ => return .err .invalid
  | .ok th =>
    let timg : Spec.Img := { b := top, h := th }
    let mut back : Option Back := none
    if (h.img.splitOn "+back").length > 1 then
      let bb ← IO.FS.readBinFile s!"{dir}/case{h.id}.img1"
      match Spec.parseHdr bb with
      | .error _ => return .err .invalid
      | .ok bh =>
        let bimg : Spec.Img := { b := bb, h := bh }
        let bp : Params := { p with readOnly := true, backing := true }
        match openImage bimg bp (loadComp compLines (2^bh.cb / 512) "back") none with
        | .ok bd => back := some (backOf bd)
        | .err e => return .err e
        | .panic s => return .panic s
    match openImage timg p (loadComp compLines (2^th.cb / 512) "top") back with
    | .ok d =>
      let content := parseRle (flatLines.getD 0 "")
      let own := parseRle (flatLines.getD 1 "")
      let sec := (List.range content.size).foldl (fun acc s => if content[s]! = 0 then acc else acc.set s content[s]!) (FMap.empty 0)
      let ownm := (List.range own.size).foldl (fun acc g => if own[g]! = 0 then acc else acc.set g true) (FMap.empty false)
      return .ok { dev := d, params := p, flat := { vsize := h.size, cs := 2^h.cb, sec := sec, own := ownm } }
    | .err e => return .err e
    | .panic s => return .panic s

def initCase (h : CaseHdr) : Outcome SeqState :=
  let p : Params := { bsBits := h.bsb, rbCache := h.rb, l2Cache := h.l2, readOnly := h.rdonly, backing := false }
  match formatDev h.size h.cb h.ro (2^h.bsb) p with
  | .ok d =>
    .ok { dev := d, params := p,
          flat := { vsize := h.size, cs := 2^h.cb, sec := FMap.empty 0, own := FMap.empty false } }
  | .err e => .err e
  | .panic s => .panic s

partial def runSeq (dir : String) (lines : Array String) (out : IO.FS.Stream) : IO Unit := do
  let mut st : Option SeqState := none
  let mut nops := 0
  for line in lines do
    let t := line.splitOn " "
    match t with
    | "case" :: _ =>
      let h := parseCaseHdr line
      out.putStrLn s!"case {h.id}"
      nops := 0
      let init ← if h.img == "format" then pure (initCase h) else initBuilt dir h
      match init with
      | .ok s => st := some s; out.putStrLn "open ok"
      | .err _ => st := none; out.putStrLn "open err"
      | .panic _ => st := none; out.putStrLn "open panic"
    | "op" :: k :: rest0 =>
      nops := nops + 1
      -- fault runs annotate the op with the result the real code returned
      let implRes : Option String := match rest0.getLast? with
        | some l => if l.startsWith "res=" then some (l.drop 4).toString else none
        | none => none
      let rest := if implRes.isSome then rest0.dropLast else rest0
      match st with
      | some s =>
        if s.dead then pure () else
        let (s', ls) := stepOp s (nat! k) rest implRes
        for l in ls do out.putStrLn l
        -- C18: the content a device opened on the file alone has to show when need_flush is false
        if !s'.dev.needFlush && !s'.dead then
          out.putStrLn s!"{k} flatnow {flatAll s'.flat 512}"
        st := some s'
      | none => pure ()
    | ["end"] =>
      match st with
      | some s =>
        if !s.dead then
          for l in finalLines s nops do out.putStrLn l
      | none => pure ()
      out.putStrLn "end"
      st := none
    | _ => pure ()

end Qv.Driver
