import Driver.Pure
import Driver.Seq

open Qv.Driver

partial def loop (h : IO.FS.Stream) (out : IO.FS.Stream) (f : String → String) : IO Unit := do
  let line ← h.getLine
  if line.isEmpty then return ()
  let l := if line.endsWith "\n" then (line.dropEnd 1).toString else line
  out.putStrLn (f l)
  loop h out f

def main (args : List String) : IO UInt32 := do
  let stdin ← IO.getStdin
  let stdout ← IO.getStdout
  match args with
  | ["pure"] => loop stdin stdout respondPure; return 0
  | ["seq", path] =>
    let lines ← IO.FS.lines path
    runSeq lines stdout
    return 0
  | _ => IO.eprintln "usage: qvdrv pure < requests | qvdrv seq <file>"; return 2
