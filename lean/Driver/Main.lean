import Driver.Pure
import Driver.Seq
import Driver.Crash
import Driver.HostFileMode
import Driver.LinMode
import Driver.LruMode
import Driver.Conform
import Qv.Spec.Image

open Qv.Driver

partial def loop (h : IO.FS.Stream) (out : IO.FS.Stream) (f : String → String) : IO Unit := do
  let line ← h.getLine
  if line.isEmpty then return ()
  let l := if line.endsWith "\n" then (line.dropEnd 1).toString else line
  out.putStrLn (f l)
  loop h out f

/-- one image path per stdin line → `<path> ok | fail … | parse-error …` -/
partial def validLoop (stdin stdout : IO.FS.Stream) : IO Unit := do
  let line ← stdin.getLine
  if line.isEmpty then return ()
  let p := if line.endsWith "\n" then (line.dropEnd 1).toString else line
  let bytes ← IO.FS.readBinFile p
  match Qv.Spec.parseHdr bytes with
  | .error e => stdout.putStrLn s!"{p} parse-error {e}"
  | .ok h =>
    let v := Qv.Spec.judge { b := bytes, h := h }
    stdout.putStrLn s!"{p} {v.text}"
  validLoop stdin stdout

def main (args : List String) : IO UInt32 := do
  let stdin ← IO.getStdin
  let stdout ← IO.getStdout
  match args with
  | ["pure"] => loop stdin stdout respondPure; return 0
  | ["seq", path] =>
    let lines ← IO.FS.lines path
    let dir := (System.FilePath.parent path).map (·.toString) |>.getD "."
    runSeq dir lines stdout
    return 0
  | ["valid"] => validLoop stdin stdout; return 0
  | ["lin", path] =>
    let lines ← IO.FS.lines path
    let dir := (System.FilePath.parent path).map (·.toString) |>.getD "."
    runLin dir lines stdout
    return 0
  | ["lru", path] =>
    let lines ← IO.FS.lines path
    Qv.Driver.LruMode.runLru lines stdout
    return 0
  | ["conform", path] =>
    let lines ← IO.FS.lines path
    let dir := (System.FilePath.parent path).map (·.toString) |>.getD "."
    Qv.Driver.Conform.runConform dir lines stdout
    return 0
  | ["hostfile", path] =>
    let lines ← IO.FS.lines path
    runHostFile lines stdout
    return 0
  | ["crash", path, logPath, tier, "focus-header"] =>
    let lines ← IO.FS.lines path
    let log ← IO.FS.lines logPath
    let dir := (System.FilePath.parent path).map (·.toString) |>.getD "."
    runCrash dir lines log (tier == "thorough") stdout (focusHdr := true)
    return 0
  | ["crash", path, logPath, tier] =>
    let lines ← IO.FS.lines path
    let log ← IO.FS.lines logPath
    let dir := (System.FilePath.parent path).map (·.toString) |>.getD "."
    runCrash dir lines log (tier == "thorough") stdout
    return 0
  | _ => IO.eprintln "usage: qvdrv pure < requests | qvdrv seq <file> | qvdrv valid < paths"; return 2
