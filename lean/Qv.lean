import Qv.Base.Outcome
import Qv.Codec.L2
import Qv.Codec.Refcount
import Qv.Codec.Info
import Qv.Base.Text
import Qv.Model.FreeRange
