#!/usr/bin/env python3
"""Encodes the lock programs of Qcow2Dev (hand-extracted from /repo/src/dev/*.rs)
and derives held-while-acquiring pairs, a ranking check and the mode-refined
wait graph.  Output: programs.json, tables.md"""
import json, itertools, collections

c = "dev/cache.rs:"; a = "dev/alloc.rs:"; w = "dev/write.rs:"; r = "dev/read.rs:"
d = "dev/discard.rs:"; k = "dev/check.rs:"; m = "dev/mod.rs:"

def A(cls, mode, line, inst="-", note=None):
    x = {"acq": cls, "mode": mode, "inst": inst, "line": line}
    if note: x["note"] = note
    return x
def R(cls, line, how="end of scope", inst="-", all_=False):
    x = {"rel": cls, "inst": inst, "line": line, "how": how}
    if all_: x["all"] = True
    return x
def IO(what, line, note=None):
    x = {"io": what, "line": line}
    if note: x["note"] = note
    return x
def C(fn, line, note=None):
    x = {"call": fn, "line": line}
    if note: x["note"] = note
    return x
def BR(*alts, note=None):
    x = {"branch": [list(al) for al in alts]}
    if note: x["note"] = note
    return x
def LOOP(*body, note=None):
    x = {"loop": list(body)}
    if note: x["note"] = note
    return x
RET = {"return": True}

F = collections.OrderedDict()

# ---------------------------------------------------------------- dev/mod.rs
F["cluster_is_new"] = [A("nc_map", "rd", m+"134"), R("nc_map", m+"137", "end of fn")]
F["mark_new_cluster"] = [A("nc_map", "wr", m+"140"), R("nc_map", m+"143", "end of fn (no await while held)")]
F["clear_new_cluster"] = [A("nc_map", "wr", m+"146"), R("nc_map", m+"149", "end of fn (no await while held)")]
F["qcow2_prep_io"] = [BR([], [C("backing.qcow2_prep_io", m+"172")]), C("__qcow2_prep_io", m+"174")]
F["__qcow2_prep_io"] = [C("load_l1_table", k+"300"), C("load_refcount_table", k+"301")]

# -------------------------------------------------------------- dev/cache.rs
F["commit_header"] = [IO("call_write", c+"64", "caller holds header.wr (passed as &mut guard)")]
F["sync_unsynced"] = [BR([], [IO("call_fsync", c+"74")])]
F["flush_table"] = [IO("call_write", c+"384")]
F["flush_top_table"] = [LOOP(C("flush_table", c+"391"))]
for X, cls in (("L1", "l1table"), ("RT", "reftable")):
    F["load_top_table<%s>" % X] = [A(cls, "wr", c+"94"), BR([R(cls, c+"97", "early return"), RET], []),
                                   IO("call_read", c+"102"), R(cls, c+"103", "end of fn")]
F["load_refcount_table"] = [A("header", "rd", c+"106"), C("load_top_table<RT>", c+"107"), R("header", c+"109", "end of fn")]
F["load_l1_table"] = [A("header", "rd", c+"112"), C("load_top_table<L1>", c+"113"), R("header", c+"115", "end of fn")]
F["get_l1_entry"] = [A("l1table", "rd", c+"120"), R("l1table", c+"120", "temporary guard in tail expr, no await after")]
F["add_l2_slice"] = [C("add_cache_slice<L2>", c+"131"),
                     BR([], [C("flush_refcount", c+"137"), C("flush_cache_entries<L2>", c+"138", "evicted dirty victims")])]
F["get_l2_slice_slow"] = [C("add_l2_slice", c+"158")]
F["get_l2_slice"] = [BR([], [C("get_l1_entry", c+"177"), C("get_l2_slice_slow", c+"178")])]
for X, sl, ncl in (("L2", "l2_slice", "ncl_meta_l2"), ("RB", "rb_slice", "ncl_meta_rb")):
    F["flush_cache_entries<%s>" % X] = [
        LOOP(
            A(sl, "rd", c+"221", "e_i (i-th dirty entry of v)", "guard pushed into cache_vec at %s270, lives until fn end" % c),
            BR([],
               [A("nc_map", "rd", c+"238"), R("nc_map", c+"240", "end of inner block (lock cloned out)"),
                BR([],
                   [A(ncl, "wr", c+"244", "cluster(e_i)"), R(ncl, c+"262", "flag already true: guard dropped at end of if-let", "cluster(e_i)")],
                   [A(ncl, "wr", c+"244", "cluster(e_i)", "moved into cluster_map at %s260, lives until %s280/293-298" % (c, c))])]),
            note="for (_, e) in tv, only dirty entries; order = order of input Vec (HashMap iteration order from get_dirty_entries, or LRU order from commit_wmap)"),
        IO("join_all(call_fallocate...)", c+"276"),
        BR([R(ncl, c+"280", "error path: cluster_map consumed", all_=True), R(sl, c+"287", "return drops cache_vec", all_=True), RET], []),
        A("nc_map", "wr", c+"291"),
        R(ncl, c+"293", "cluster_map consumed one by one (drops at 298)", all_=True),
        R("nc_map", c+"299", "end of block"),
        IO("join_all(flush_table->call_write...)", c+"311"),
        R(sl, c+"329", "end of fn drops cache_vec", all_=True)]
    F["flush_cache<%s>" % X] = [BR([C("flush_cache_entries<%s>" % X, c+"367")], [])]
    F["flush_meta_generic<%s>" % X] = [BR(
        [C("flush_cache<%s>" % X, c+"421"), C("sync_unsynced", c+"426"), C("flush_table", c+"427")],
        [C("flush_cache<%s>" % X, c+"440"), C("sync_unsynced", c+"443")],
        note="caller holds the top table guard (reftable.rd / l1table.rd / l1table.wr) during the whole call; the comment at 439 is wrong")]
F["shrink_caches"] = [C("flush_meta", c+"344")]
F["flush_refcount"] = [LOOP(A("reftable", "rd", c+"473", note="`let rt = &*guard` temporary lifetime extension: guard lives to end of loop body"),
                            C("flush_meta_generic<RB>", c+"474"),
                            R("reftable", c+"481", "end of loop body / break / ? return"))]
F["flush_mapping"] = [LOOP(C("flush_meta_generic<L2>", c+"489"), note="caller (ensure_l2_offset) holds l1table.wr")]
F["fsync_range"] = [IO("call_fsync", c+"501")]
F["flush_meta"] = [A("flush_lock", "wr", c+"506", note="async Mutex"),
                   LOOP(C("flush_refcount", c+"518"),
                        A("l1table", "rd", c+"523", note="`&*guard` extended to end of loop body"),
                        C("flush_meta_generic<L2>", c+"525"),
                        R("l1table", c+"531", "end of loop body")),
                   R("flush_lock", c+"540", "end of fn")]

# -------------------------------------------------------------- dev/alloc.rs
F["grow_reftable"] = [IO("join!(call_fallocate, flush_table, call_fallocate)", a+"137"),
                      C("flush_top_table", a+"145"),
                      A("header", "wr", a+"149"), C("commit_header", a+"156"), R("header", a+"160", "end of block"),
                      C("free_clusters", a+"162", "caller ensure_refblock_offset still holds reftable.wr -> free_clusters takes reftable.rd: SELF-DEADLOCK")]
F["get_reftable_entry"] = [A("reftable", "rd", a+"168"), R("reftable", a+"170", "end of fn")]
F["free_clusters"] = [LOOP(C("get_reftable_entry", a+"184"), C("get_refblock", a+"186"),
                           A("rb_slice", "wr", a+"200", "slice(host_cluster)"),
                           R("rb_slice", a+"228", "end of loop body, no await while held", "slice(host_cluster)"))]
for X, sl in (("L2", "l2_slice"), ("RB", "rb_slice")):
    F["add_cache_slice<%s>" % X] = [
        A(sl, "wr", a+"268", "entry(key): fresh wmap entry, or a pre-existing entry of this key"),
        BR([C("cluster_is_new", a+"275"), BR([IO("call_read", a+"279")], [])], []),
        R(sl, a+"299", "end of `evicted = {..}` block (or return at 284)", "entry(key): fresh wmap entry, or a pre-existing entry of this key")]
F["add_rb_slice"] = [C("add_cache_slice<RB>", a+"311"), BR([], [C("flush_cache_entries<RB>", a+"316", "evicted dirty victims")])]
F["get_refblock"] = [BR([], [C("add_rb_slice", a+"334")])]
F["ensure_refblock_offset"] = [
    A("reftable", "rd", a+"349"), BR([R("reftable", a+"352", "return"), RET], [R("reftable", a+"354", "end of block")]),
    A("header", "rd", a+"357"), R("header", a+"359", "end of block"),
    A("reftable", "wr", a+"361", note="held to fn end (379 or 417)"),
    BR([], [C("grow_reftable", a+"371")]),
    BR([R("reftable", a+"379", "return"), RET], []),
    C("mark_new_cluster", a+"394"),
    C("add_rb_slice", a+"406"),
    R("reftable", a+"417", "end of fn")]
F["try_alloc_from_rb_slice"] = [C("get_refblock", a+"437"), A("rb_slice", "wr", a+"438", "slice(cls)"),
                                R("rb_slice", a+"455", "end of fn, no await while held", "slice(cls)")]
F["try_allocate_from"] = [C("ensure_refblock_offset", a+"468"),
                          LOOP(C("try_alloc_from_rb_slice", a+"482"),
                               BR([], [C("free_clusters", a+"500"), C("free_clusters", a+"501")]))]
F["allocate_clusters"] = [LOOP(C("try_allocate_from", a+"540"))]
F["allocate_cluster"] = [C("allocate_clusters", a+"570")]
F["count_rb_slice_alloc_clusters"] = [C("get_refblock", a+"578"), A("rb_slice", "wr", a+"579"), R("rb_slice", a+"582", "end of fn")]
F["count_rt_entry_alloc_clusters"] = [A("reftable", "rd", a+"586"),
                                      BR([R("reftable", a+"593", "return"), RET], []),
                                      LOOP(C("count_rb_slice_alloc_clusters", a+"598")),
                                      R("reftable", a+"605", "end of fn")]
F["count_alloc_clusters"] = [LOOP(C("count_rt_entry_alloc_clusters", a+"616"), note="dead code outside tests")]

# -------------------------------------------------------------- dev/write.rs
F["flush_header_for_l1_table"] = [A("header", "wr", w+"25"), C("commit_header", w+"30"), R("header", w+"32", "end of fn")]
F["ensure_l2_offset"] = [
    C("get_l1_entry", w+"37"),
    BR([RET], []),
    A("l1table", "wr", w+"43", note="held to fn end"),
    BR([],
       [C("allocate_clusters", w+"53"), C("flush_refcount", w+"61"), C("flush_mapping", w+"62"),
        C("flush_top_table", w+"64"), C("flush_header_for_l1_table", w+"66"), C("free_clusters", w+"72")],
       [A("header", "rd", w+"75"), R("header", w+"77", "end of block"), C("flush_header_for_l1_table", w+"81")],
       note="only if !l1_table.in_bounds(l1_index), i.e. l1_index >= header l1_size"),
    BR([R("l1table", w+"89", "return"), RET], []),
    C("allocate_cluster", w+"92"),
    C("mark_new_cluster", w+"98"),
    R("l1table", w+"107", "end of fn")]
F["do_compressed_cow"] = [C("do_read_compressed", w+"120"), IO("call_write", w+"123")]
F["do_back_cow"] = [C("backing.read_at", w+"139"), IO("call_write", w+"143")]
F["do_write_data_file"] = [
    A("nc_map", "rd", w+"181"),
    BR([R("nc_map", w+"207", "end of block"), IO("call_write (f_write)", w+"241")],
       [A("ncl_data", "wr", w+"187", "cluster(host_off)"), R("ncl_data", w+"204", "flag already true: guard dropped at end of match arm", "cluster(host_off)"),
        R("nc_map", w+"207", "end of block"), IO("call_write (f_write)", w+"241")],
       [A("ncl_data", "wr", w+"187", "cluster(host_off)", "guard is owned (Arc inside), returned out of the block as cluster_lock"),
        R("nc_map", w+"207", "end of block"),
        IO("call_fallocate (discard)", w+"211"),
        BR([], [C("do_compressed_cow", w+"218")], [C("do_back_cow", w+"221")]),
        R("ncl_data", w+"232", "explicit drop(lock) (or `?` return at 211)", "cluster(host_off)"),
        C("clear_new_cluster", w+"233"),
        BR([IO("call_fsync", w+"236"), RET], [IO("call_write (f_write)", w+"241")])])]
F["do_write_cow"] = [
    BR([], [C("ensure_l2_offset", w+"258")]),
    C("get_l2_slice", w+"260"),
    A("l2_slice", "wr", w+"264", "slice(split)"),
    BR([R("l2_slice", w+"278", "explicit drop", "slice(split)"), C("write_at_for_cow", w+"279"), RET],
       [C("alloc_and_map_cluster", w+"270"),
        C("do_write_data_file", w+"284"),
        BR([C("free_clusters", w+"292"), C("clear_new_cluster", w+"293"),
            R("l2_slice", w+"301", "fn return (guard used at 296)", "slice(split)"), RET],
           [C("flush_refcount", w+"310"), C("flush_table", w+"316"), IO("call_fsync", w+"322"),
            R("l2_slice", w+"326", "explicit drop", "slice(split)"),
            BR([], [C("free_clusters", w+"345")])])])]
F["alloc_and_map_cluster"] = [C("allocate_cluster", w+"365"), C("mark_new_cluster", w+"371")]
F["make_single_write_mapping"] = [C("ensure_l2_offset", w+"384"), C("get_l2_slice", w+"385"),
                                  A("l2_slice", "wr", w+"386", "slice(split)"),
                                  BR([], [C("alloc_and_map_cluster", w+"390")]),
                                  R("l2_slice", w+"395", "end of fn", "slice(split)")]
F["__make_multiple_write_mapping"] = [C("ensure_l2_offset", w+"433"), C("get_l2_slice", w+"434"),
                                      A("l2_slice", "wr", w+"435", "slice(split)"),
                                      BR([R("l2_slice", w+"464", "return", "slice(split)"), RET], []),
                                      C("allocate_clusters", w+"467"), BR([], [C("allocate_cluster", w+"469")]),
                                      LOOP(C("mark_new_cluster", w+"489")),
                                      R("l2_slice", w+"516", "end of fn", "slice(split)")]
F["make_multiple_write_mappings"] = [LOOP(C("get_l2_entry", w+"527"), BR([], [C("__make_multiple_write_mapping", w+"533")]))]
F["populate_single_write_mapping"] = [C("get_l2_entry", w+"547"), BR([], [C("make_single_write_mapping", w+"552")])]
F["populate_write_mappings"] = [C("make_multiple_write_mappings", w+"574")]
F["do_write"] = [BR([C("do_write_data_file", w+"590")], [C("do_write_cow", w+"591")], [C("do_write_cow", w+"593")])]
F["__write_at"] = [BR([C("populate_single_write_mapping", w+"650"), C("do_write", w+"651")],
                      [C("populate_write_mappings", w+"656"),
                       C("do_write", w+"663", "one future per cluster, polled concurrently by FuturesUnordered at %s670" % w)])]
F["write_at_for_cow"] = [C("__write_at", w+"684")]
F["write_at"] = [C("__write_at", w+"689")]

# --------------------------------------------------------------- dev/read.rs
F["get_mapping"] = [C("get_l2_entry", r+"14")]
F["get_l2_entry"] = [BR([A("l2_slice", "rd", r+"27", "slice(key)"), R("l2_slice", r+"29", "end of branch, no await while held", "slice(key)")],
                        [C("get_l1_entry", r+"30"),
                         BR([], [C("get_l2_slice_slow", r+"35"), A("l2_slice", "rd", r+"36", "slice(key)"),
                                 R("l2_slice", r+"38", "end of branch", "slice(key)")])])]
F["get_l2_entries"] = [LOOP(BR([A("l2_slice", "rd", r+"56", "slice(key)"), R("l2_slice", r+"84", "end of loop body, no await while held", "slice(key)")],
                               [C("get_l1_entry", r+"58"),
                                BR([], [C("get_l2_slice_slow", r+"65"), A("l2_slice", "rd", r+"66", "slice(key)"),
                                        R("l2_slice", r+"84", "end of loop body", "slice(key)")])]))]
F["do_read_compressed"] = [IO("call_read", r+"106")]
F["do_read_backing"] = [BR([C("backing.read_at_for_backing", r+"148")], [])]
F["do_read_data_file"] = [A("nc_map", "rd", r+"181"), R("nc_map", r+"183", "end of block (lock cloned out)"),
                          BR([], [A("ncl_data", "rd", r+"185", "cluster(off)"),
                                  R("ncl_data", r+"190", "end of if-let block (or return at 188)", "cluster(off)")]),
                          IO("call_read", r+"195")]
F["do_read"] = [BR([C("do_read_data_file", r+"219")], [], [C("do_read_backing", r+"221")], [C("do_read_compressed", r+"222")])]
F["__read_at"] = [BR([C("get_l2_entry", r+"302"), C("do_read", r+"304")],
                     [C("get_l2_entries", r+"312"), C("do_read", r+"320", "one future per cluster, join_all at %s328" % r)])]
F["read_at_for_backing"] = [C("__read_at", r+"357")]
F["read_at"] = [C("__read_at", r+"362")]

# ------------------------------------------------------------ dev/discard.rs
F["__discard_one_cluster"] = [C("get_l1_entry", d+"132"), BR([RET], []),
                              A("header", "rd", d+"137"), R("header", d+"137", "temporary, end of statement"),
                              C("get_l2_slice", d+"138"),
                              A("l2_slice", "wr", d+"139", "slice(split)"),
                              BR([R("l2_slice", d+"146", "return (146/152)", "slice(split)"), RET],
                                 [IO("call_fallocate", d+"167"), R("l2_slice", d+"169", "return", "slice(split)"), RET],
                                 [R("l2_slice", d+"174", "explicit drop", "slice(split)")])]
F["discard"] = [LOOP(C("__discard_one_cluster", d+"76")), C("flush_meta", d+"91"), IO("call_fsync", d+"92"),
                LOOP(IO("call_fallocate", d+"106"), C("free_clusters", d+"113"))]

# -------------------------------------------------------------- dev/check.rs
for X, cls in (("L1", "l1table"), ("RT", "reftable")):
    F["add_table_clusters<%s>" % X] = [A(cls, "rd", k+"49"), R(cls, k+"58", "end of fn, no await while held")]
F["add_refcount_table_clusters"] = [A("header", "rd", k+"66"), R("header", k+"70", "end of block")]
F["add_l1_table_clusters"] = [A("header", "rd", k+"85"), A("l1table", "rd", k+"88"),
                              R("l1table", k+"92", "temporary, end of let statement"), R("header", k+"95", "end of block")]
F["add_data_clusters"] = [LOOP(C("get_mapping", k+"114"))]
F["qcow2_cluster_usage"] = [C("add_refcount_table_clusters", k+"152"), C("add_l1_table_clusters", k+"156"),
                            C("add_table_clusters<L1>", k+"160"), C("add_table_clusters<RT>", k+"164"), C("add_data_clusters", k+"168")]
F["cluster_is_allocated"] = [A("reftable", "rd", k+"237"), R("reftable", k+"239", "end of block"), BR([RET], []),
                             C("get_refblock", k+"245"), A("rb_slice", "rd", k+"246"), R("rb_slice", k+"249", "end of fn")]
F["check_cluster_leak"] = [C("add_refcount_table_clusters", k+"183"), C("add_l1_table_clusters", k+"184"),
                           C("add_table_clusters<L1>", k+"185"), C("add_table_clusters<RT>", k+"186"), C("add_data_clusters", k+"187"),
                           A("reftable", "rd", k+"196"), R("reftable", k+"207", "end of block"),
                           LOOP(C("cluster_is_allocated", k+"215"))]
F["check_cluster"] = [BR([], [C("cluster_is_allocated", k+"255")])]
F["check_single_mapping"] = [BR([], [C("check_cluster", k+"272")])]
F["check_mapping"] = [LOOP(C("get_mapping", k+"282"), C("check_single_mapping", k+"284"))]
F["check"] = [C("check_mapping", k+"291"), C("check_cluster_leak", k+"293")]
# verif-only wrappers (cfg qcow2_rs_verif)
F["verif_allocate_clusters"] = [C("allocate_clusters", "dev/verif.rs:181")]
F["verif_free_clusters"] = [C("free_clusters", "dev/verif.rs:186")]

EXTERNAL = {"backing.read_at": "backing_dev", "backing.read_at_for_backing": "backing_dev",
            "backing.qcow2_prep_io": "backing_dev"}

# ------------------------------------------------------------------ analysis
# summaries: acquisitions reachable (transitively) from a fn, and io reachable
acq_sum = {f: set() for f in F}
io_sum = {f: set() for f in F}

def walk(actions, fn, visit):
    for x in actions:
        if "branch" in x:
            for al in x["branch"]:
                walk(al, fn, visit)
        elif "loop" in x:
            walk(x["loop"], fn, visit)
        else:
            visit(x)

changed = True
while changed:
    changed = False
    for f, prog in F.items():
        acc, ios = set(), set()
        def v(x):
            if "acq" in x:
                acc.add((x["acq"], x["mode"], f, x["line"]))
            elif "io" in x:
                ios.add((x["io"], f, x["line"]))
            elif "call" in x:
                cal = x["call"]
                if cal in EXTERNAL:
                    acc.add((EXTERNAL[cal], "any", f, x["line"]))
                    ios.add(("backing dev io", f, x["line"]))
                else:
                    acc.update(acq_sum[cal]); ios.update(io_sum[cal])
        walk(prog, f, v)
        if acc != acq_sum[f] or ios != io_sum[f]:
            acq_sum[f], io_sum[f] = acc, ios
            changed = True

pairs = {}    # key -> record
io_pairs = {}

def add_pair(h, acq, via):
    # h: (cls, mode, fn, line)   acq: (cls, mode, fn, line)
    key = (h[0], h[1], acq[0], acq[1], h[2], h[3], acq[2], acq[3])
    rec = pairs.setdefault(key, {"held": h[0], "held_mode": h[1], "held_by_fn": h[2], "held_at": h[3],
                                 "acq": acq[0], "acq_mode": acq[1], "acq_in_fn": acq[2], "acq_at": acq[3], "via": set()})
    if via: rec["via"].add(via)

def sim(actions, fn, held):
    """held: list of (cls, mode, fn, line, inst). returns (held_after, returned)"""
    held = list(held)
    for x in actions:
        if "acq" in x:
            for h in held:
                add_pair(h[:4], (x["acq"], x["mode"], fn, x["line"]), None)
            held.append((x["acq"], x["mode"], fn, x["line"], x["inst"]))
        elif "rel" in x:
            if x.get("all"):
                held = [h for h in held if h[0] != x["rel"]]
            else:
                idx = [i for i, h in enumerate(held) if h[0] == x["rel"]]
                assert idx, (fn, x)
                held.pop(idx[-1])
        elif "io" in x:
            for h in held:
                io_pairs.setdefault((h[0], h[1], x["io"], fn, x["line"]), None)
        elif "call" in x:
            cal = x["call"]
            if cal in EXTERNAL:
                for h in held:
                    add_pair(h[:4], (EXTERNAL[cal], "any", fn, x["line"]), None)
            else:
                for h in held:
                    for q in acq_sum[cal]:
                        add_pair(h[:4], q, "%s@%s->%s" % (fn, x["line"], cal))
                    for (what, f2, l2) in io_sum[cal]:
                        io_pairs.setdefault((h[0], h[1], what, f2, l2), None)
        elif "branch" in x:
            outs = []
            for al in x["branch"]:
                h2, ret = sim(al, fn, held)
                if not ret:
                    outs.append(h2)
            if not outs:
                return held, True
            # may-held union (multiset max)
            best = []
            for o in outs:
                cnt = collections.Counter(best)
                for h in o:
                    if cnt[h] > 0:
                        cnt[h] -= 1
                    else:
                        best.append(h)
            held = best
        elif "loop" in x:
            h1, ret = sim(x["loop"], fn, held)
            if ret:
                return h1, True
            h2, ret = sim(x["loop"], fn, h1)    # second iteration: sees guards kept from the first
            # keep the state after one iteration plus anything accumulated
            held = h2 if len(h2) > len(h1) else h1
        elif "return" in x:
            return held, True
    return held, False

leftover = {}
for f, prog in F.items():
    h, ret = sim(prog, f, [])
    if h and not ret:
        leftover[f] = h
assert not leftover, leftover

# ---------------------------------------------------------------- ranking
RANK = collections.OrderedDict([
    ("flush_lock", 0), ("l1table", 1), ("l2_slice", 2), ("reftable", 3), ("header", 4), ("rb_slice", 5),
    ("ncl_meta_l2", 6), ("ncl_meta_rb", 6), ("nc_map", 7), ("ncl_data", 8), ("backing_dev", 9), ("io_file_mutex", 10)])

def ok(p):
    rh, ra = RANK[p["held"]], RANK[p["acq"]]
    if rh < ra: return True
    if rh == ra and p["held"] == p["acq"] and p["held_mode"] == "rd" and p["acq_mode"] == "rd": return True
    return False

plist = []
for key in sorted(pairs):
    p = dict(pairs[key]); p["via"] = sorted(p["via"]); p["ok_under_ranking"] = ok(p)
    plist.append(p)

# class-level dedup
cls_pairs = collections.OrderedDict()
for p in plist:
    kk = (p["held"], p["held_mode"], p["acq"], p["acq_mode"])
    cls_pairs.setdefault(kk, []).append(p)

# class graph SCCs (ignoring rd/rd same class)
def sccs(nodes, edges):
    index = {}; low = {}; st = []; on = set(); out = []; cnt = [0]
    import sys; sys.setrecursionlimit(10000)
    def dfs(v):
        index[v] = low[v] = cnt[0]; cnt[0] += 1; st.append(v); on.add(v)
        for u in edges.get(v, ()):
            if u not in index:
                dfs(u); low[v] = min(low[v], low[u])
            elif u in on:
                low[v] = min(low[v], index[u])
        if low[v] == index[v]:
            comp = []
            while True:
                u = st.pop(); on.discard(u); comp.append(u)
                if u == v: break
            out.append(comp)
    for v in nodes:
        if v not in index: dfs(v)
    return out

edges = collections.defaultdict(set)
for (h, hm, q, qm) in cls_pairs:
    if h == q and hm == "rd" and qm == "rd":
        continue
    edges[h].add(q)
nodes = sorted(set(RANK) | set(edges))
class_cycles = [sorted(cc) for cc in sccs(nodes, edges) if len(cc) > 1 or cc[0] in edges.get(cc[0], ())]

# mode-refined wait graph: node (cls, held mode).  Holding H in hm and waiting for A in am
# is blocked by holders of A in a conflicting mode bm.
redges = collections.defaultdict(set)
for (h, hm, q, qm) in cls_pairs:
    if qm == "rd": bms = ["wr"]
    else: bms = ["rd", "wr"]
    if q in ("backing_dev",):
        bms = ["any"]
    for bm in bms:
        redges[(h, hm)].add((q, bm))
rnodes = sorted(set(redges) | set(x for v in redges.values() for x in v))
refined_cycles = [sorted(cc) for cc in sccs(rnodes, redges) if len(cc) > 1 or cc[0] in redges.get(cc[0], ())]

same_class_write = [p for p in plist if p["held"] == p["acq"] and (p["held_mode"] == "wr" or p["acq_mode"] == "wr")]
violations = [p for p in plist if not p["ok_under_ranking"]]

# ------------------------------------------------------------------ output
out = {
    "classes": {
        "flush_lock": "Qcow2Dev.flush_lock, futures_locks::Mutex<()> (dev/mod.rs:58)",
        "header": "Qcow2Dev.header AsyncRwLock<Qcow2Header> (dev/mod.rs:30)",
        "l1table": "Qcow2Dev.l1table AsyncRwLock<L1Table> (dev/mod.rs:33)",
        "reftable": "Qcow2Dev.reftable AsyncRwLock<RefTable> (dev/mod.rs:49)",
        "l2_slice": "AsyncRwLock<L2Table> inside an l2cache entry (dev/mod.rs:26,34)",
        "rb_slice": "AsyncRwLock<RefBlock> inside a refblock_cache entry (dev/mod.rs:50)",
        "nc_map": "Qcow2Dev.new_cluster outer AsyncRwLock<HashMap<..>> (dev/mod.rs:45)",
        "ncl_meta_l2": "inner AsyncRwLock<bool> of a new cluster that stores L2 slices (taken in flush_cache_entries<L2Table>)",
        "ncl_meta_rb": "inner AsyncRwLock<bool> of a new cluster that stores refblock slices (taken in flush_cache_entries<RefBlock>)",
        "ncl_data": "inner AsyncRwLock<bool> of a new DATA cluster (do_write_data_file / do_read_data_file)",
        "backing_dev": "any lock of the backing Qcow2Dev (separate instance, reached through backing.read_at)",
        "io_file_mutex": "tokio::sync::Mutex<File> inside Qcow2IoTokio (tokio_io.rs:61,75,102,145): leaf, taken inside every call_read/call_write/call_fallocate/call_fsync of the tokio backend",
    },
    "functions": F,
    "pairs": plist,
    "class_pairs": [{"held": h, "held_mode": hm, "acq": q, "acq_mode": qm,
                     "sites": sorted(set("%s@%s (held by %s@%s)" % (p["acq_in_fn"], p["acq_at"], p["held_by_fn"], p["held_at"]) for p in ps))}
                    for (h, hm, q, qm), ps in cls_pairs.items()],
    "held_during_io": [{"held": h, "mode": hm, "io": what, "fn": f, "line": l} for (h, hm, what, f, l) in sorted(io_pairs)],
    "ranking": [{"class": cname, "rank": rk} for cname, rk in RANK.items()],
    "class_graph_cycles": class_cycles,
    "mode_refined_cycles": [[list(n) for n in cc] for cc in refined_cycles],
    "violations": violations,
    "same_class_with_write": same_class_write,
}
json.dump(out, open("/tmp/lockprog/programs.json", "w"), indent=1)

with open("/tmp/lockprog/tables.md", "w") as o:
    o.write("| # | held (mode) | acquiring (mode) | rank ok | acquisition sites: fn@line (guard held by fn@line) |\n|---|---|---|---|---|\n")
    for i, ((h, hm, q, qm), ps) in enumerate(cls_pairs.items(), 1):
        sites = sorted(set("%s@%s (held by %s@%s)" % (p["acq_in_fn"], p["acq_at"], p["held_by_fn"], p["held_at"]) for p in ps))
        okk = all(p["ok_under_ranking"] for p in ps)
        o.write("| %d | %s.%s | %s.%s | %s | %s |\n" % (i, h, hm, q, qm, "yes" if okk else "**NO**", "; ".join(sites)))
    o.write("\n\n### held during backend I/O (-> io_file_mutex with the tokio backend)\n\n")
    byc = collections.defaultdict(set)
    for (h, hm, what, f, l) in sorted(io_pairs):
        byc[(h, hm)].add("%s@%s" % (f, l))
    o.write("| held (mode) | I/O sites (fn@line) |\n|---|---|\n")
    for (h, hm), s in sorted(byc.items()):
        o.write("| %s.%s | %s |\n" % (h, hm, "; ".join(sorted(s))))

print("functions", len(F), "pairs", len(plist), "class pairs", len(cls_pairs))
print("class cycles", class_cycles)
print("refined cycles", refined_cycles)
print("violations (class level):")
for kk in sorted(set((p["held"], p["held_mode"], p["acq"], p["acq_mode"]) for p in violations)):
    print("  ", kk)
print("same-class with write:")
for kk in sorted(set((p["held"], p["held_mode"], p["acq"], p["acq_mode"], p["acq_in_fn"], p["acq_at"], p["held_by_fn"], p["held_at"]) for p in same_class_write)):
    print("  ", kk)
