import subprocess,sys
prof=sys.argv[1]; seed=int(sys.argv[2]); n=int(sys.argv[3]); ops=int(sys.argv[4]) if len(sys.argv)>4 else 40
img=sys.argv[5] if len(sys.argv)>5 else 'format'
sys.argv=['x']
exec(open('/verif/check').read().split("def main():")[0])
rep=Report('X','quick',seed)
inputs,impl,model=run_seq('/verif/out/tmp2',seed,n,ops,prof,extra=['--img',img],rep=rep)
compare_seq(rep,inputs,impl,model,M_TAGS,{"flat","reopen"})
print(prof,'evals',rep.evaluations,'mdiffs',len(rep.model_diffs),'ofails',len(rep.oracle_fails))
sigs={}
for f in rep.oracle_fails: sigs.setdefault(f['sig'],[]).append(f)
for s,fs in sigs.items(): print('  O',s,len(fs),fs[0].get('opline'),'|',fs[0]['what'][:200], '|', fs[0]['input'][0][:120])
seen=set()
for d in rep.model_diffs[:60]:
    key=(d['kind'],d['tag'],str(d['impl'])[:30],str(d['model'])[:30])
    if key in seen: continue
    seen.add(key)
    print('  M',d['case'],d['op'],d['kind'],d['tag'],'| impl:',str(d['impl'])[:150],'| model:',str(d['model'])[:150], '|', d['input'][d['op']+1] if d['op']+1<len(d['input']) else '')
