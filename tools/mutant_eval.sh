#!/bin/bash
# usage: mutant_eval.sh <patch.diff> <check ids...>
# applies a seeded change to /repo, runs the given checks (quick tier), undoes the change.
P=$1; shift
cd /repo || exit 2
if [ -n "$(git status --porcelain -- src)" ]; then echo "repo not clean"; exit 2; fi
git apply "$P" || { echo "APPLY-FAILED $P"; exit 2; }
cd /verif
export VERIF_EVIDENCE_DIR=/verif/out/mutant-evidence
for c in "$@"; do
  out=$(./check $c --tier quick 2>&1)
  rc=$?
  v=$(echo "$out" | grep -c "^VIOLATION")
  echo "check=$c rc=$rc violations=$v :: $(echo "$out" | grep -E '^(ORACLE-FAIL|MODEL-DIFF|VIOLATION)' | head -3 | cut -c1-260 | tr '\n' '|')"
done
git -C /repo checkout -- .
