import sys
path=sys.argv[1]
sys.argv=['x']
__file__='/verif/check'
exec(open('/verif/check').read().split("def main():")[0])
rep=Report('X','quick',1)
inputs,impl,model=run_seq('/verif/out/replay-tmp',1,1,1,'general',replay=path,rep=rep,dump=True)
compare_seq(rep,inputs,impl,model,M_TAGS,{"flat","reopen"})
valid_oracle(rep,'/verif/out/replay-tmp',inputs,impl,model) if 'valid_oracle' in globals() else None
print('evals',rep.evaluations,'mdiffs',len(rep.model_diffs),'ofails',len(rep.oracle_fails))
for f in rep.oracle_fails[:5]: print('  O',f['sig'],f['what'][:300])
for d in rep.model_diffs[:8]:
    print('  M',d['case'],d['op'],d['kind'],d['tag'],'| impl:',str(d['impl'])[:250],'| model:',str(d['model'])[:250])
