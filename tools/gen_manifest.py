#!/usr/bin/env python3
"""regenerates /verif/MANIFEST.json from the table below (keeps it valid)."""
import json, os
ROOT = os.path.dirname(os.path.dirname(os.path.abspath(__file__)))
ids = [json.loads(l)["id"] for l in open(os.path.join(ROOT, "properties.jsonl"))]

CLAIMED = {
 "C15": dict(
   text="Lean 4 theorems (Qv/Props/C15.lean, 47 statements) prove for ALL inputs: L2/L1 entry decode equals the specification's field reading and encode/decode are mutually inverse on every spec-permitted entry (exact characterisation of the lossy and panicking cases), refcount get/set/frame/big-endian/LSB-first/refusal laws for all 7 widths and every index, Info::new geometry equals the spec formulas, SplitGuestOffset/HostCluster index composition reproduces the offset. The model is tied to src/meta/*.rs, src/dev/info.rs and HostCluster by a byte-identical request/response differential on every run.",
   ref="5.C15", tech="Lean 4 theorems over a hand-written codec model + request/response correspondence with the real meta API",
   note="trusted: Lean kernel, propext/Classical.choice/Quot.sound, bv_decide native axioms confined to named bit-level helper lemmas (listed in evidence), the harness (qvh pure) and differ; header (de)serialisation round trip is checked by C14's differential, not by these theorems"),
 "C13": dict(
   text="Lean 4 theorems (Qv/Props/C13.lean) prove for ALL (offset, length, geometry, state): invalid writes return Err with the device state unchanged, read-only devices refuse write and discard, rejected/empty/clamped reads return exactly the documented result, no argument makes a read panic, the discard prologue cannot overflow and its range is inside the request. Tied to __read_at/__write_at/discard by sequential correspondence (results, RAM metadata view, request log) on a boundary grid incl. the u64::MAX neighbourhood; the flat-disk oracle and a no-modifying-request/no-metadata-change oracle judge the real code's outputs.",
   ref="5.C13", tech="Lean 4 theorems over the mirrored validation prologues + sequential correspondence and flat-disk oracle",
   note="trusted: Lean kernel + standard axioms; harness SimFile backend and hooks; the model's cache-free view of metadata"),
 "C01": dict(
   text="The sequential device model Qv.Model.Dev (allocator, L1/L2 mapping, zero-once, COW, discard) is executed on the same histories as the real Qcow2Dev and must agree on every result, read buffer, every L2 entry, every refcount, allocation hint and flushed file tables; the independent flat-disk specification Qv.Spec.Flat judges every read and every reopen sweep of the real code. Theorem set in Qv/Props/C01.lean (flat-disk laws; refinement statements under construction, see DESIGN 5.C01).",
   ref="5.C01", tech="Lean 4 executable model + flat-disk spec, correspondence on generated histories, theorems on the model",
   note="partial: the refinement theorem step_refines_flat is not yet closed; what is proved is listed in evidence.theorems. Backing/compressed images are covered from the builder stage on"),
}

m = {
 "version": 1,
 "setup_cmd": "./setup.sh",
 "hooks": {
   "guard": "qcow2_rs_verif",
   "enable": "RUSTFLAGS='--cfg qcow2_rs_verif' — set for the harness crate by /verif/harness/.cargo/config.toml; /verif/check rebuilds /verif/harness (path dependency on /repo) on every run",
   "baseline_off_cmd": "cd /repo && cargo test --workspace --no-fail-fast --offline",
   "source_commits": ["9d28f34", "ae69cc1"],
   "add_only": True,
 },
 "engines": [
   {"name": "lean", "path": "/verif/lean", "serves_properties": sorted(CLAIMED), "kind_free_text": "Lean 4 project Qv: model (Qv/Codec, Qv/Model), specification (Qv/Spec), theorems (Qv/Props), driver qvdrv"},
   {"name": "qvh", "path": "/verif/harness", "serves_properties": sorted(CLAIMED), "kind_free_text": "Rust harness: drives the real qcow2-rs code in-process over an in-memory backend, emits observation lines"},
   {"name": "check", "path": "/verif/check", "serves_properties": sorted(CLAIMED), "kind_free_text": "python3 driver: builds, audits proofs (#print axioms), runs harness + driver, diffs, writes evidence"},
 ],
 "checks": [],
 "notes": "See DESIGN.md. known_findings.jsonl lists repaired ('fixed') and recorded ('known') genuine defects.",
 "not_applicable": [],
}
for i in ids:
    if i in CLAIMED:
        c = CLAIMED[i]
        m["checks"].append({
          "property_id": i,
          "quick_cmd": "./check %s --tier quick" % i,
          "thorough_cmd": "./check %s --tier thorough" % i,
          "evidence_file": "/verif/evidence/%s.json" % i,
          "replay_cmd_template": "./check %s --replay {path}" % i,
          "engine": "lean+qvh",
          "level_claimed": {"category": "proof", "text": c["text"], "design_ref": c["ref"]},
          "level_note": c["note"],
          "technique": c["tech"],
        })
    else:
        m["not_applicable"].append({"property_id": i, "reason": "not yet claimed: the machinery for this property is still being built (DESIGN.md section 9); not a statement that the technique cannot apply"})
json.dump(m, open(os.path.join(ROOT, "MANIFEST.json"), "w"), indent=1)
print("claimed", sorted(CLAIMED))
