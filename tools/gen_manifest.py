#!/usr/bin/env python3
"""regenerates /verif/MANIFEST.json from the table below (keeps it valid)."""
import json, os
ROOT = os.path.dirname(os.path.dirname(os.path.abspath(__file__)))
ids = [json.loads(l)["id"] for l in open(os.path.join(ROOT, "properties.jsonl"))]

COMMON_NOTE = ("trusted: Lean 4.33 kernel + propext/Classical.choice/Quot.sound (per-theorem list in evidence); the hand-written model is tied to /repo by the correspondence run of the same check "
               "(harness qvh over the in-memory backend SimFile + cfg-guarded read-only hooks, Lean driver qvdrv, differ in /verif/check); sampled, not exhaustive, on the implementation side")

CLAIMED = {
 "C01": dict(
   text="Theorems (Qv/Props/C01.lean): the flat reference disk's laws for all inputs - read-your-writes, frame, last-writer-wins over arbitrary write sequences (flat_read_after_writes). The sequential device model Qv.Model.Dev (allocator, L1/L2 mapping, zero-once, COW from backing and compressed clusters, discard) is executed on the same histories as the real Qcow2Dev and must agree on every result, read buffer, every L2 entry, every refcount, allocation hint and flushed file tables; the independent specification Qv.Spec.Flat judges every read and every reopen sweep of the real code, on self-formatted images and on images from an independent builder (backing chains incl. shorter backing, compressed, zero, v2/v3).",
   ref="5.C01", tech="Lean 4 theorems on the flat-disk spec + executable Lean device model in lock-step correspondence with the real code + flat-disk oracle",
   note="partial: the refinement theorem `step_refines_flat` (model step = flat step for every state) is proved for the flat spec and for the in-place / allocator pieces only (see evidence.theorems); the model-vs-code tie is by correspondence. " ),
 "C02": dict(
   text="Theorems (Qv/Props/C02.lean): reopening the model on the flushed state with ANY legal parameters preserves every L2 entry, refcount, data sector and every read result (reopen_reads_same), for all states and geometries. Tie: after every successful flush the real code's file is swept through two freshly opened real devices (same and different block/slice/cache parameters) and compared with the flat disk; the file's own tables are compared with the model.",
   ref="5.C02", tech="Lean 4 theorems on the model's reopen + flush/reopen oracle through the real code", note=COMMON_NOTE + "; the model is cache-free: that the real caches are transparent is what the correspondence checks, not a theorem"),
 "C03": dict(
   text="Theorems (Qv/Props/C03.lean): `Dev.refs` counts every reference the format defines (header, L1 table clusters, reftable clusters, refblocks, L2 tables, standard and compressed data); `Acct` (stored refcount = references for EVERY host cluster) holds for every freshly formatted image (format_acct, all geometries within the L1 cap) and is preserved by allocation+mapping, new L2 table, new refblock, discard (all three variants) and a single-cluster write into a new cluster; remapping over an allocated entry leaks exactly one cluster (map_over_allocation_leaks_one: the known finding). Oracle: every file left by a successful flush is parsed and judged by the independent Lean checker Qv.Spec.Image.judge.",
   ref="5.C03", tech="Lean 4 invariant (Acct) preserved per operation on the model + independent Lean image checker on every flushed file + correspondence of the file's tables",
   note=COMMON_NOTE + "; partial: Acct preservation is not proved for multi-cluster writes, the COW path and reftable growth (judge covers them on the real code). Known finding listed in known_findings.jsonl: leak of a preallocated zero cluster on foreign images"),
 "C04": dict(
   text="Theorems (Qv/Spec/CrashAbs.lean, Qv/Props/C04.lean): for an abstract refcounted image and ANY log of updates and syncs, if every epoch satisfies the monitor (min refcount over all subsets >= max references over all subsets) then EVERY crash state (durable image + arbitrary subset of un-synced updates) is safe (epochSafe_sound, log_safe); the soft-update discipline implies it for all logs (disciplined_safe); negative witnesses for pointer-before-increment, decrement-before-unmap and missing syncs. Search on the real code: a crash after every backend request, subsets + block tearing of the pending requests, each crash file judged by Qv.Spec.Image.judge.",
   ref="5.C04 / 10.3", tech="Lean 4 theorems on the abstract crash protocol + crash-state search over the real request log judged by the Lean image checker",
   note=COMMON_NOTE + "; the tie between the abstract protocol and the code's flush order is the crash search (sampled subsets; exhaustive only for pending sets <= 9 in the thorough tier), not a proof"),
 "C05": dict(
   text="Theorems (Qv/Props/C05.lean): after a sync every crash state holds, at every location, the synced value or a value written LATER to that location (synced_value_survives), also through one level of mapping when mapping and target are untouched; negative witness reuse_before_unmap_loses_data (the defect found and repaired in discard). Search on the real code: after every flush_meta+fsync_range pair, every later crash state is read by the independent Lean reader and each guest sector must hold the synced token or the token of a later operation on it.",
   ref="5.C05 / 10.3", tech="Lean 4 theorems on the abstract crash protocol + durability search over the real request log read by the independent Lean reader",
   note=COMMON_NOTE + "; compressed clusters are skipped by the independent reader (no inflate in Lean); sampled subsets as for C04"),
 "C19": dict(
   text="Theorems (Qv/Props/C19.lean): the reference host-file model - read is short exactly at end of file, read-after-write, write extends with zero fill, punch keeps the length and reads zeros, the zero-write fallback is indistinguishable from a punch for every reader and differs only in length (fallback_equiv), fsync is the identity. Correspondence: Qcow2IoSync, Qcow2IoTokio, Qcow2IoUring over scratch files and the in-memory backend run the same request sequences (at/across/beyond EOF, zero-length, multi-MiB, O_DIRECT) and must agree line by line and in final (length, hash), and with the model; guest histories replayed on all backends give the same sweep.",
   ref="5.C19", tech="Lean 4 theorems on the host-file model + differential of the three real backends, the in-memory backend and the model",
   note="partial by nature: kernel / file-system behaviour underneath the real backends (tmpfs vs ext4 hole semantics, O_DIRECT acceptance) is observed in this sandbox, not proved"),
 "C06": dict(
   text="Theorems (Qv/Props/C06.lean): the per-block linearizability decision the check runs is exact for histories of any length - linearizable_iff (search = existence of a witness order), a witness is a permutation of the history (validOrder_perm), respects completion-before-start (validOrder_respects_realtime) and replays as a sequential register execution (validOrder_reads). Model of the mechanism the property names (Qv/Model/LruCache.lean = src/cache.rs method by method, Qv/Model/SliceProto.lean = the load / modify / evict / write-back protocol of add_cache_slice and flush_cache_entries; theorems in Qv/Props/C06Cache.lean when listed in evidence). Tie: the cache model runs in lock-step with the real AsyncLruCache; search: the real Qcow2Dev under a deterministic scheduler that owns every suspension point, every block's history judged by the Lean decision procedure, plus final content and flush+reopen content.",
   ref="10.7", tech="Lean 4 theorems on the linearizability oracle and on the cache/slice protocol model + lock-step correspondence of the cache model + schedule search over the real code judged by the Lean oracle",
   note="partial: a theorem cannot range over the Rust async runtime's interleavings; proved: the oracle and the protocol model; searched (sampled schedules, random and PCT-like): the real code. " + COMMON_NOTE),
 "C07": dict(
   text="Theorems (Qv/Props/C07.lean): on the lock-program model Qv.Spec.Lock - a system whose programs respect a rank discipline (a lock requested while another is held has higher rank, or equal rank with both in read mode) and release what they acquire never reaches a deadlock under any schedule (programs_never_deadlock), some blocked task is always blocked only by running tasks (blocked_has_unblocked_blocker), a non-deadlocked state with unfinished tasks can step (progress); the classic inversion is rejected and deadlocks. Allocator loops terminate with the model's fuel (C08). Search: the real Qcow2Dev under the deterministic scheduler - deadlock = unfinished tasks with nothing ready and nothing pending, livelock = step budget, any Err with valid arguments and a working backend = spurious.",
   ref="10.7", tech="Lean 4 deadlock-freedom theorem for rank-disciplined lock programs + schedule search for deadlock / livelock / spurious errors on the real code",
   note="partial: the lock programs of the real code paths were extracted by hand (notes/lock-programs-report.md) and are NOT machine-tied to the source; the tie to the code is the schedule search (sampled). " + COMMON_NOTE),
 "C09": dict(
   text="Theorems (Qv/Props/C09.lean): for every supported (size, cluster bits, refcount order, block size) the formatter model lays out header / refcount table / refcount block / L1 table disjointly and cluster aligned, counts exactly its own meta data, maps nothing, reads zeros everywhere, derives the specification's geometry (entries per table, L1 entries = ceil(size / bytes per L1 entry)) and satisfies the accounting invariant (format_layout, format_layout_disjoint, format_refcounts, format_mapping_empty, format_reads_zero, format_geometry, format_valid_model). Codec theorems: C15. Tie + oracle: images of the independent builder opened with default / custom / minimal parameters - get_mapping() of every guest cluster equals the independent Lean parser's reading, read_at sweep equals the builder's ground truth; the real formatter over a parameter grid judged by the Lean image checker.",
   ref="10.8", tech="Lean 4 theorems on the formatter model and codecs + independent builder / Lean parser as specification oracle on the real code",
   note=COMMON_NOTE + "; the builder, the Lean parser and inflate (miniz_oxide, harness side) are trusted as the specification; compressed plaintext is checked through read_at against the builder's tokens"),
 "C14": dict(
   text="Theorems (Qv/Props/C14.lean): for EVERY byte string the header parser model returns Ok or Err, never panics (parse_nopanic), does work bounded by the buffer (parse_fuel_irrelevant, parse_exts_bounded, parse_backing_bounded); an accepted header has magic, version 2/3, no encryption, refcount order <= 6, no compression type, no incompatible bits, 9 <= cluster bits <= 21, aligned tables, bounded table sizes (parse_ok_supported + one refuses_* theorem per rule); serialise-then-parse is the identity on supported headers with extensions and backing name (serialize_parse_roundtrip). Tie: byte-exact differential of from_buf / serialize_to_buf with the model on valid, mutated and random headers; search: corrupted images (header fields, table pointers, entries, refcounts) opened and used through the real code must not panic or hang.",
   ref="5.C14", tech="Lean 4 totality and refusal theorems on the mirrored header parser + byte-level differential + malformed-image search on the real code", note=COMMON_NOTE + "; on corrupted tables (not headers) only panic / hang freedom is judged"),
 "C17": dict(
   text="Theorems (Qv/Spec/FlushRetry.lean, Qv/Props/C17.lean): abstract write-back cache with failing writes - a flush that reports Ok left nothing dirty and the disk holds every dirty value; what a failed flush leaves dirty was not written and nothing is lost (flushOnce_keeps_failed); once the backend works, repeating the flush converges in one attempt to the target disk whatever failed before (retry_converges); clearing the dirty mark before the write provably loses data (clear_before_write_loses: the defect found and repaired). Search on the real code: a failure injected at each individual backend request and at random subsets (incl. punch unsupported), the call must return Err without panic, the device stays usable, and after the backend recovers flush_meta() until Ok + reopen must give every acknowledged write and a file the Lean checker accepts up to leaks.",
   ref="10.3", tech="Lean 4 theorems on the abstract flush-retry protocol + fault-injection search on the real code judged by the flat-disk oracle and the Lean image checker",
   note=COMMON_NOTE + "; the tie between the abstract protocol and flush_cache_entries / flush_top_table is the fault search, not a proof"),
 "C18": dict(
   text="Theorems (Qv/Props/C18.lean): on the device model every state-changing function either sets need_flush or leaves L1, L2, refcount table and refcounts unchanged (FlagOrSame for the 30 functions of the write / allocate / discard paths; the two internal exceptions allocRange and mapRun are stated with their callers' compensation); hence for every history without flush the flag is set whenever the view differs from the last flushed view (needflush_seq, needflush_since_last_flush), flush does not change the view. Tie: the model's flag equals the real flag after every operation; oracle: whenever the real flag is false the file alone, read by a fresh device, must give the flat disk - sequentially after every operation and at the quiescent points of concurrent schedules (flush overlapping writers).",
   ref="10.7", tech="Lean 4 invariant (flag-or-same) on the device model + correspondence of the flag + reopen oracle at every flag-false point, sequential and under the scheduler",
   note=COMMON_NOTE + "; the flag is sampled only while no flush is running, as the property says"),
 "C12": dict(
   text="Theorems (Qv/Props/C12.lean): the growth step of the model (Qv.Model.growReftable, mirror of clone_and_grow + grow_reftable + release of the old table) is characterised exactly in both success branches, fails only with `unsupported` leaving the state unchanged, never panics, covers the requested index, preserves all old entries (growReftable_covers); the new refblock and table clusters lie in the region of the new entry (growReftable_new_region), have refcount exactly 1 and exactly one reference each (growth_new_clusters); nothing is under-counted between relocation and release (growth_noUnder) and the accounting invariant Acct holds again afterwards (growth_acct, ensureRefblock_growth_acct incl. indices beyond the next entry). New refblocks: C03 theorems. Tie: histories that fill self-formatted images until the host file outgrows the refcount table, many-refblock histories, builder images with a short L1 table - every result, table, refcount and header field equals the model; every flushed file is judged exactly by the Lean checker; crash search (C04/C05 oracles) on every request of the relocation windows.",
   ref="10.9", tech="Lean 4 theorems on the growth step of the model (exact characterisation, accounting through relocation) + correspondence on growth histories + crash search focused on the relocation windows",
   note=COMMON_NOTE + "; the order of writes and syncs inside the relocation is searched (crash states), not proved; growth beyond the first refblock slice is refused by the code (documented limit); L1 table relocation is unreachable within the 32 MiB L1 cap. Known finding (zero+prealloc leak) shared with C03"),
 "C08": dict(
   text="Theorems (Qv/Props/C08.lean, 41): for all refcount slices and device states - free-window search returns the FIRST all-zero window or none when none exists (sound, first, complete, fuel suffices), slice allocation hands out only refcount-0 clusters, contiguous, no longer than requested, sets them to 1 and changes nothing else; free decrements exactly once, never below zero (panics instead), lowers the hint to the freed cluster; alloc-then-free round trip; the allocator loops terminate with the model's fuel under every geometry. Tie: allocator choices of the real code (host offsets, hint, every refcount) equal the model's on write/discard/rewrite cycles; single-owner and refcount>=1 oracle on the RAM view after every operation.",
   ref="5.C08", tech="Lean 4 theorems on the mirrored allocator + correspondence of every allocation decision + ownership oracle", note=COMMON_NOTE + "; concurrent allocation (disjointness under interleaving) is covered by C06's schedule exploration, not by these theorems"),
 "C10": dict(
   text="Theorems (Qv/Props/C10.lean): for every history on the top device the backing chain's content, the compressed plaintext and geometry are unchanged (run_sameBack over all 25 state-changing functions); a read-only device never changes under any history; exact COW merge formula for backing and compressed sources incl. zeros beyond a shorter backing image (cow_source_backing/compressed). Tie + oracle: partial/straddling writes over backing-provided and compressed clusters on builder images; per-device request logs must contain reads only for backing and read-only devices.",
   ref="5.C10", tech="Lean 4 frame theorems over the whole write path + COW histories in correspondence + read-only request-stream oracle", note=COMMON_NOTE),
 "C11": dict(
   text="Theorems (Qv/Props/C11.lean): Flat.discard is exactly the statement (whole owned clusters inside the clipped range become zero, everything else unchanged, idempotent); on the model, discard of a cluster clears the mapping (zero flag when a backing file exists, in-place zeroing for v2), decrements exactly the released clusters' refcounts, zeroes their data, and the discarded cluster reads zeros and NEVER the backing chain (discardOne_reads_zero_any_backing); the loop visits exactly the whole clusters of the range. Tie + oracle: discard with all argument shapes over all cluster states, with/without backing.",
   ref="5.C11", tech="Lean 4 theorems on Flat.discard and the mirrored discard path + correspondence + flat oracle", note=COMMON_NOTE + "; the code batches the release of a discard call after a metadata flush (soft-update repair) while the model releases per cluster: final states coincide, which the correspondence checks"),
 "C13": dict(
   text="Theorems (Qv/Props/C13.lean): for ALL (offset, length, geometry, state): invalid writes return Err with the device state unchanged, read-only devices refuse write and discard, rejected/empty/clamped reads return exactly the documented result, no argument makes a read panic, the discard prologue cannot overflow and its range is inside the request. Tie: boundary grid incl. the u64::MAX neighbourhood; flat oracle and a no-modifying-request/no-metadata-change oracle judge the real code.",
   ref="5.C13", tech="Lean 4 theorems over the mirrored validation prologues + sequential correspondence and flat-disk oracle", note=COMMON_NOTE),
 "C15": dict(
   text="Theorems (Qv/Props/C15.lean, ~48): for ALL inputs - L2/L1 entry decode equals the specification's field reading; encode/decode mutually inverse on every spec-permitted entry (exact iff characterisations incl. compressed sector-count bound); refcount get/set/frame/big-endian/LSB-first/refusal for all 7 widths and every index; Info::new geometry equals the spec formulas; guest-offset and host-cluster index composition reproduces the offset. Tie: byte-identical request/response differential with the real meta API.",
   ref="5.C15", tech="Lean 4 theorems over a hand-written codec model + request/response correspondence with the real meta API", note=COMMON_NOTE + "; bv_decide native-evaluation axioms confined to named bit-level helper lemmas (listed in evidence); header (de)serialisation round trip is covered by C14's differential"),
 "C16": dict(
   text="Theorems (Qv/Props/C16.lean): every request site's (offset, length) arithmetic (data, compressed bounce read, slices, top-table blocks and loads, zeroing, COW cluster, header read, per-cluster pieces of a request) is block aligned for all geometries with bs <= slice <= cluster; the header write site is proved NOT aligned (headerWrite_unaligned) - known finding. Oracle: the in-memory backend records offset, length and buffer address of every request of every history.",
   ref="5.C16", tech="Lean 4 theorems on the request-site arithmetic + alignment oracle on the real request log", note=COMMON_NOTE + "; buffer-address alignment is observed (address mod 4096), not proved"),
}

m = {
 "version": 1,
 "setup_cmd": "./setup.sh",
 "hooks": {
   "guard": "qcow2_rs_verif",
   "enable": "RUSTFLAGS='--cfg qcow2_rs_verif' — set for the harness crate by /verif/harness/.cargo/config.toml; /verif/check rebuilds /verif/harness (path dependency on /repo) on every run",
   "baseline_off_cmd": "cd /repo && cargo test --workspace --no-fail-fast --offline",
   "source_commits": ["9d28f34", "ae69cc1", "3568a70", "0359e77"],
   "add_only": True,
 },
 "engines": [
   {"name": "lean", "path": "/verif/lean", "serves_properties": sorted(CLAIMED), "kind_free_text": "Lean 4 project Qv: model (Qv/Codec, Qv/Model), specification (Qv/Spec), theorems (Qv/Props), driver qvdrv"},
   {"name": "qvh", "path": "/verif/harness", "serves_properties": sorted(CLAIMED), "kind_free_text": "Rust harness: drives the real qcow2-rs code in-process over an in-memory backend, emits observation lines"},
   {"name": "check", "path": "/verif/check", "serves_properties": sorted(CLAIMED), "kind_free_text": "python3 driver: builds, audits proofs (#print axioms), runs harness + driver, diffs, writes evidence"},
 ],
 "checks": [],
 "notes": "See DESIGN.md. known_findings.jsonl lists repaired ('fixed') and recorded ('known') genuine defects.",
 "not_applicable": [],
}
for i in ids:
    if i in CLAIMED:
        c = CLAIMED[i]
        m["checks"].append({
          "property_id": i,
          "quick_cmd": "./check %s --tier quick" % i,
          "thorough_cmd": "./check %s --tier thorough" % i,
          "evidence_file": "/verif/evidence/%s.json" % i,
          "replay_cmd_template": "./check %s --replay {path}" % i,
          "engine": "lean+qvh",
          "level_claimed": {"category": "proof", "text": c["text"], "design_ref": c["ref"]},
          "level_note": c["note"],
          "technique": c["tech"],
        })
    else:
        m["not_applicable"].append({"property_id": i, "reason": "not yet claimed: the machinery for this property is still being built (DESIGN.md section 9); not a statement that the technique cannot apply"})
json.dump(m, open(os.path.join(ROOT, "MANIFEST.json"), "w"), indent=1)
print("claimed", sorted(CLAIMED))
