#!/bin/bash
# usage: confirm_mut.sh <worktree>
WT=$1
cd $WT || exit 1
export CARGO_TARGET_DIR=$WT/target CARGO_NET_OFFLINE=true
LOG=$WT/confirm.log
: > $LOG
for n in 1 2; do
  M=$WT/mutants/$n
  [ -f $M/patch.diff ] || continue
  git checkout -q -- src; rm -f tests/verif_demo_$n.rs
  if ! git apply $M/patch.diff 2>>$LOG; then echo "mutant $n: APPLY-FAILED" >> $LOG; continue; fi
  cargo build --offline >/dev/null 2>&1 || { echo "mutant $n: BUILD-FAILED" >> $LOG; git checkout -q -- src; continue; }
  ok=$(cargo test --offline --no-fail-fast 2>&1 | grep -E "^test .* ok$" | wc -l)
  cp $M/demo.rs tests/verif_demo_$n.rs
  cargo test --offline --test verif_demo_$n >/tmp/$(basename $WT)_demo_with_$n.log 2>&1; with=$?
  git checkout -q -- src
  cargo test --offline --test verif_demo_$n >/tmp/$(basename $WT)_demo_without_$n.log 2>&1; without=$?
  rm -f tests/verif_demo_$n.rs
  echo "mutant $n: suite_ok=$ok demo_with_rc=$with demo_without_rc=$without" >> $LOG
done
git checkout -q -- src
