#!/bin/bash
# evaluates every seeded change under /verif/seeded against the checks named in its meta (or given list)
cd /verif
for d in seeded/*/; do
  name=$(basename $d)
  prop=${name%%-*}
  checks=$(python3 -c "
import json,sys,os
p='$d/meta.json'
print(' '.join(json.load(open(p)).get('checks',['$prop'])) if os.path.exists(p) else '$prop')")
  echo "=== $name"
  timeout 900 tools/mutant_eval.sh /verif/$d/patch.diff $checks 2>&1 | cut -c1-300
  git -C /repo checkout -- . 2>/dev/null
done
cd /verif/harness && cargo build >/dev/null 2>&1
