#!/bin/bash
# evaluates every seeded change under /verif/seeded (or the ids given as arguments) against the
# checks named in its meta.json; writes seeded/<id>/result.json and seeded/RESULTS.md
cd /verif
ids="$@"
[ -z "$ids" ] && ids=$(ls seeded | grep -v RESULTS)
for name in $ids; do
  d=seeded/$name
  [ -f $d/patch.diff ] || continue
  prop=${name%%-*}
  checks=$(python3 -c "
import json,sys,os
p='$d/meta.json'
print(' '.join(json.load(open(p)).get('checks',['$prop'])) if os.path.exists(p) else '$prop')")
  echo "=== $name ($checks)"
  out=$(timeout 2400 tools/mutant_eval.sh /verif/$d/patch.diff $checks 2>&1)
  echo "$out" | cut -c1-300
  git -C /repo checkout -- . 2>/dev/null
  python3 - "$d" <<PY
import json,sys,re
d=sys.argv[1]
out='''$(echo "$out" | sed "s/'''/ /g" | cut -c1-600)'''
res={"applied": "APPLY-FAILED" not in out and "repo not clean" not in out, "checks": {}}
for l in out.split("\n"):
    m=re.match(r"check=(\S+) rc=(\d+) violations=(\d+) :: (.*)", l)
    if m:
        sig=re.search(r"sig=(\S+)", m.group(4))
        res["checks"][m.group(1)]={"rc": int(m.group(2)), "violations": int(m.group(3)), "first": (sig.group(1) if sig else m.group(4)[:120])}
res["detected_by"]=[c for c,v in res["checks"].items() if v["rc"]==1 and v["violations"]>0]
json.dump(res, open(d+"/result.json","w"), indent=1)
PY
done
python3 - <<'PY'
import json,os,glob
rows=[]
for d in sorted(glob.glob('/verif/seeded/*/')):
    n=os.path.basename(d.rstrip('/'))
    if not os.path.exists(d+'result.json'): continue
    r=json.load(open(d+'result.json'))
    m=json.load(open(d+'meta.json')) if os.path.exists(d+'meta.json') else {}
    det=", ".join("%s (%s)"%(c, r["checks"][c]["first"]) for c in r["detected_by"]) or ("NOT APPLICABLE TO CURRENT TREE" if not r["applied"] else "**missed**")
    if m.get("superseded"):
        det="superseded: "+m["superseded"][:150]
    rows.append("| %s | %s | %s |" % (n, (m.get("needs_to_manifest") or "")[:110].replace("|","/"), det[:200].replace("|","/")))
open('/verif/seeded/RESULTS.md','w').write("# seeded changes x checks (written by tools/mutant_eval_all.sh)\n\n| change | needs | detected by (first signature) |\n|---|---|---|\n"+"\n".join(rows)+"\n")
PY
cd /verif/harness && cargo build >/dev/null 2>&1
